"""C13 -- connections deliver every message intact, in order, within bounds.

The real ``billiard.connection.Connection`` (from ``Pipe(duplex=False)`` and
``Pipe(duplex=True)``) runs over the virtual pipes of ``vmc.vos``.  Parts:

forms      complete finite table, one fresh connection pair per case: sender
           argument forms (bytes / bytearray / memoryview / array, every
           valid and the nearest invalid (offset, size)), receiver forms
           (recv_bytes, maxlength, recv_bytes_into buffer sizes and offsets,
           recv), closed / wrong-direction handles with every kernel call on
           the fd counted.  Each case runs on the virtual OS and, with the
           same oracle, on the real kernel objects.
split      sequential driver, message-length sequences of 1..3; every read /
           write answered full / 1 byte / half / EINTR by the environment,
           all choice sequences up to a deviation bound (explore.dfs).
peerclose  the peer's stream ends after byte position k (every k for
           streams of messages <= 40 bytes, {0,3,4,5,len+3,len+4} per message
           for long ones), reads split as above.
conc       sender || receiver (and an echo pair over a duplex connection) as
           two vthreads over pipes of small capacity, all interleavings and
           environment answers up to a preemption / deviation bound.
conformance (``validated``) every stream of split / peerclose is also sent
           through a real os.pipe() / socket.socketpair() with a reader
           thread running the real Connection; the writer emits the pieces
           the model's reads returned.  Results must be identical.

Oracle = the list of messages sent (nothing of billiard is modelled).
DESIGN.md section 5, C13.
"""
import array
import collections
import errno
import os
import random
import threading
import time
import zlib

from vmc import vctx, vos, sched as vs, explore, par, report  # noqa: F401
from vmc.sched import HarnessError
from billiard import connection as bconn
from billiard import BufferTooShort

BIG = 2 * 1024 * 1024 + 1
_PAT = bytes(range(1, 252)) * (BIG // 251 + 3)
NOCAP = 1 << 40
IO_LIMIT = 3000           # read/write calls one execution may make
FILL = 0xAA


def payload(i, n):
    """Message number ``i`` of length ``n``: period 251, phase by index."""
    off = (37 * i + 11) % 251
    return _PAT[off:off + n]


def _summ(x):
    if isinstance(x, (bytes, bytearray)):
        return ('msg', len(x), zlib.crc32(x))
    if isinstance(x, tuple) and len(x) == 3 and isinstance(x[2], bytes):
        return ('obj', x[0], x[1], len(x[2]), zlib.crc32(x[2]))
    return ('other', repr(x)[:60])


def _obj(i, n):
    return ('o', i, payload(i, n))


class Runaway(BaseException):
    """More I/O calls than any terminating execution of this size makes."""


class GuardLog(list):

    def append(self, item):
        if len(self) >= IO_LIMIT:
            raise Runaway('more than %d read/write calls' % IO_LIMIT)
        list.append(self, item)


# ------------------------------------------------------------ one execution
class Env:
    """Environment choices of one execution (how the kernel splits or
    interrupts each read / write) drawn from a ``Choices`` object."""

    def __init__(self, prefix=()):
        self.ch = vs.Choices(prefix)
        self.on = True
        self.log = []
        self.reads = []          # sizes of the data chunks reads returned
        self.count = collections.Counter()

    def policy(self, w, op, fd, n):
        if not self.on:
            if op == 'read':
                self.reads.append(n)
            return n
        alts = [n]
        if n > 1:
            alts.append(1)
        if n // 2 > 1:
            alts.append(n // 2)
        alts.append('EINTR')
        k = alts[self.ch.next(len(alts), None, '%s/%d' % (op, n))]
        self.log.append((op, n, k))
        if k == 'EINTR':
            self.count['eintr-' + op] += 1
        else:
            if k < n:
                self.count['short-' + op] += 1
            if op == 'read':
                self.reads.append(k)
        return k

    def shape(self):
        return tuple(sorted((k, min(v, 2)) for k, v in self.count.items()))


class CountingFds(dict):
    """The world's fd table, counting look-ups: vos logs a read/write only
    after it found the fd open for that direction, so an attempt on a
    wrong-direction fd is visible only here."""
    lookups = 0

    def __getitem__(self, key):
        self.lookups += 1
        return dict.__getitem__(self, key)


class Exec:
    """A sequential execution: fresh virtual world (or, with ``real=True``,
    the real kernel with read/write calls on our fds logged)."""

    def __init__(self, env=None, real=False, cap=NOCAP, sched=None):
        self.env, self.real, self.cap, self.sched = env, real, cap, sched
        self.conns = []
        self.fds = set()

    def __enter__(self):
        self.saved_cap = vos.PIPE_CAP
        if self.real:
            vos.clear()
            self.iolog = []
            self.saved = (vos._real['read'], vos._real['write'])
            rd, wr = self.saved

            self.total = 0

            def read(fd, n):
                if fd in self.fds:
                    self.iolog.append(('read', fd, n))
                    self._tick()
                return rd(fd, n)

            def write(fd, data):
                if fd in self.fds:
                    self.iolog.append(('write', fd, len(data)))
                    self._tick()
                return wr(fd, data)
            vos._real['read'], vos._real['write'] = read, write
            self.world = None
        else:
            vos.PIPE_CAP = self.cap
            w = self.world = vos.reset(self.sched)
            w.io_logging = True
            w.io_log = self.iolog = GuardLog()
            w.fds = CountingFds(w.fds)
            if self.env is not None:
                w.io_policy = self.env.policy
        return self

    def __exit__(self, *a):
        try:
            if self.sched is not None:
                self.sched.abandon()
            for c in self.conns:
                try:
                    c.close()
                except BaseException:       # noqa
                    pass
                c._handle = None            # nothing left for __del__
        finally:
            vos.PIPE_CAP = self.saved_cap
            if self.real:
                vos._real['read'], vos._real['write'] = self.saved
            vos.clear()

    def pipe(self, kind):
        if kind == 'pipe':
            rx, tx = bconn.Pipe(duplex=False)
        elif kind == 'sock':
            rx, tx = bconn.Pipe(duplex=True)
        elif kind == 'sock-rev':
            tx, rx = bconn.Pipe(duplex=True)
        else:
            raise HarnessError('kind %r' % (kind,))
        self.conns += [rx, tx]
        self.fds |= {rx.fileno(), tx.fileno()}
        return rx, tx

    def _tick(self):
        self.total += 1
        if self.total > IO_LIMIT:
            raise Runaway('more than %d real read/write calls' % IO_LIMIT)

    def io_n(self):
        return len(self.iolog)

    def io_reset(self):
        del self.iolog[:]
        if self.world is not None:
            self.world.fds.lookups = 0

    def attempts(self):
        """read/write calls logged plus (model) fd-table look-ups: any
        kernel call on one of our fds, successful or not."""
        n = len(self.iolog)
        if self.world is not None:
            n += self.world.fds.lookups
        return n


def _send_one(tx, sform, i, m):
    if sform == 'bytes':
        tx.send_bytes(m)
    elif sform == 'mv':
        tx.send_bytes(memoryview(b'\xee' + m + b'\xdd\xdd'), 1, len(m))
    elif sform == 'bytearray':
        tx.send_bytes(bytearray(b'\xee\xee' + m), 2)
    elif sform == 'obj':
        tx.send(_obj(i, len(m)))
    elif sform == 'offset':
        # Connection.send_offset (compat.send_offset): the caller frames the
        # message and resumes after short writes (celery's asynpool usage).
        # The frame used is the one the real send_bytes produces (measured
        # by the caller, passed in ``m`` as the already framed bytes).
        buf = memoryview(m)
        off = 0
        guard = 0
        while off < len(buf):
            guard += 1
            if guard > IO_LIMIT:
                raise Runaway('send_offset makes no progress')
            try:
                n = tx.send_offset(buf, off)
            except InterruptedError:
                continue
            off += n
    else:
        raise HarnessError('sform %r' % (sform,))


def _recv_one(rx, rform, L):
    if rform == 'bytes':
        return rx.recv_bytes()
    if rform == 'max':
        return rx.recv_bytes(L)
    if rform == 'into':
        buf = bytearray([FILL]) * (L + 6)
        n = rx.recv_bytes_into(buf, 3)
        if n != L or bytes(buf[:3]) != bytes([FILL]) * 3 or \
                bytes(buf[3 + n:]) != bytes([FILL]) * (L + 3 - n):
            return ('other', 'recv_bytes_into returned %r, buffer edges %r %r'
                    % (n, bytes(buf[:3]), bytes(buf[3 + L:])))
        return bytes(buf[3:3 + n])
    if rform == 'obj':
        return rx.recv()
    raise HarnessError('rform %r' % (rform,))


def _drain(rx, lens, rform='bytes', poll=None):
    """Receive ``len(lens)`` messages and then one more (which must hit the
    end of the stream); stop at the first exception."""
    out = []
    for i in range(len(lens) + 1):
        try:
            if poll is not None:
                while not rx.poll(poll):
                    pass
            if i < len(lens):
                r = _recv_one(rx, rform, lens[i])
            else:
                r = rx.recv_bytes()
        except Exception as exc:
            out.append(('exc', type(exc).__name__))
            break
        out.append(r if isinstance(r, tuple) and r[0] == 'other'
                   else _summ(r))
    return out


def _want(sent, rform):
    if rform == 'obj':
        return [_summ(_obj(i, len(m))) for i, m in enumerate(sent)]
    return [_summ(m) for m in sent]


# ===================================================================== forms
def _mkobj(typ, base):
    if typ == 'bytes':
        return base
    if typ == 'bytearray':
        return bytearray(base)
    if typ == 'memoryview':
        return memoryview(base)
    if typ == 'mv-slice':
        return memoryview(bytearray(b'\xee' + base + b'\xee'))[1:-1]
    if typ == 'array-i':
        return array.array('i', base)
    if typ == 'array-B':
        return array.array('B', base)
    raise HarnessError(typ)


def _forms_send(ex, rx, tx, c):
    n, off, size, typ = c['n'], c['offset'], c['size'], c['typ']
    base = payload(1, n)
    obj = _mkobj(typ, base)
    if off is None:
        args, o = (obj,), 0
    elif size is None:
        args, o = (obj, off), off
    else:
        args, o = (obj, off, size), off
    valid = 0 <= o <= n and (size is None or (size >= 0 and o + size <= n))
    err = None
    try:
        tx.send_bytes(*args)
    except Exception as exc:
        err = type(exc).__name__
    nio = ex.io_n()
    if valid:
        if err:
            return None, 'valid send_bytes%r raised %s' % (
                (typ, n, off, size), err)
        exp = [base[o:] if size is None else base[o:o + size]]
    else:
        if err is None:
            return None, ('send_bytes accepted the invalid (offset, size) = '
                          '(%r, %r) for a %d-byte %s' % (off, size, n, typ))
        if nio:
            return None, ('invalid (offset, size) = (%r, %r) rejected only '
                          'after %d read/write call(s): %r' % (
                              off, size, nio, list(ex.iolog)))
        exp = []
    tx.send_bytes(b'NEXT')
    tx.close()
    exp.append(b'NEXT')
    got = _drain(rx, [len(m) for m in exp])
    want = _want(exp, 'bytes') + [('exc', 'EOFError')]
    if got != want:
        return None, ('send_bytes(%s[%d], %r, %r): received %r, sent %r' % (
            typ, n, off, size, got, want))
    return ('send', typ, err or 'ok',
            (len(exp[0]) > 16384) if valid else None), None


def _after(rx, exp):
    """What remains of the stream must be delivered intact."""
    got = _drain(rx, [len(m) for m in exp])
    want = _want(exp, 'bytes') + [('exc', 'EOFError')]
    if got != want:
        return 'afterwards received %r, expected %r' % (got, want)
    return None


def _forms_recv(ex, rx, tx, c):
    L, form = c['L'], tuple(c['form'])
    msg = payload(0, L)
    nxt = b'NEXT'
    if form[0] == 'obj':
        tx.send(_obj(0, L))
    else:
        tx.send_bytes(msg)
    tx.send_bytes(nxt)
    tx.close()
    ex.io_reset()
    tag = 'L=%d %r on %s' % (L, form, c['kind'])
    if form[0] == 'bytes':
        r = rx.recv_bytes()
        if r != msg:
            return None, '%s: recv_bytes() gave %r' % (tag, _summ(r))
        return ('recv', 'bytes', 'ok'), _after(rx, [nxt])
    if form[0] == 'obj':
        r = rx.recv()
        if r != _obj(0, L):
            return None, '%s: recv() gave %r' % (tag, _summ(r))
        return ('recv', 'obj', 'ok'), _after(rx, [nxt])
    if form[0] == 'max':
        M = form[1]
        err = r = None
        try:
            r = rx.recv_bytes(M)
        except Exception as exc:
            err = type(exc).__name__
        nio = ex.io_n()
        if M >= L:
            if err or r != msg:
                return None, ('%s: a message within the limit was not '
                              'delivered: got %r / raised %s' % (
                                  tag, r and _summ(r), err))
            return ('recv', 'max', 'fits', M - L), _after(rx, [nxt])
        # the limit is smaller than the message
        if err is None:
            return None, ('%s: size limit exceeded, %d bytes delivered' % (
                tag, len(r)))
        if M < 0 and nio == 0:
            # rejected as an invalid argument before any I/O: nothing lost
            return ('recv', 'max', 'negative-rejected', err), \
                _after(rx, [msg, nxt])
        if not (rx.closed or not rx.readable):
            return None, ('%s: oversized message raised %s but the '
                          'connection is still readable' % (tag, err))
        # (a read-only handle is closed by the pinned code; the statement
        # only demands "stops being readable", so closedness is recorded in
        # the outcome, not required)
        try:
            r2 = rx.recv_bytes()
        except Exception as exc:
            return ('recv', 'max', 'oversize', err, rx.closed,
                    type(exc).__name__), None
        return None, ('%s: after the oversize error recv_bytes() still '
                      'returned %r' % (tag, _summ(r2)))
    if form[0] == 'into':
        btype, B, off = form[1], form[2], form[3]
        raw = bytearray([FILL + (j % 7) for j in range(B)])
        snap = bytes(raw)
        if btype == 'bytearray':
            buf = raw
        elif btype == 'memoryview':
            buf = memoryview(raw)
        elif btype == 'array-B':
            buf = array.array('B', raw)
        elif btype == 'array-i':
            buf = array.array('i', raw)
        else:
            raise HarnessError(btype)
        err = n = None
        try:
            n = rx.recv_bytes_into(buf, off)
        except BufferTooShort as exc:
            err = exc
        except Exception as exc:
            err = exc
        nio = ex.io_n()
        now = bytes(buf)
        if off < 0 or off > B:
            if err is None:
                return None, '%s: invalid offset accepted (returned %r)' % (
                    tag, n)
            if nio:
                return None, ('%s: invalid offset rejected only after %d '
                              'read/write call(s)' % (tag, nio))
            if now != snap:
                return None, '%s: buffer changed by a rejected call' % tag
            return ('recv', 'into', 'bad-offset', type(err).__name__), \
                _after(rx, [msg, nxt])
        if off + L > B:
            if not isinstance(err, BufferTooShort):
                return None, ('%s: message does not fit but got %r / %r' % (
                    tag, n, err))
            if not err.args or err.args[0] != msg:
                return None, ('%s: BufferTooShort does not carry the whole '
                              'message: %r' % (tag, err.args[:1]))
            if now != snap:
                return None, ('%s: buffer modified although BufferTooShort '
                              'was raised' % tag)
            return ('recv', 'into', 'too-short', B - off - L), \
                _after(rx, [nxt])
        if err is not None:
            return None, '%s: fitting recv_bytes_into raised %r' % (tag, err)
        if n != L:
            return None, '%s: returned %r' % (tag, n)
        if now != snap[:off] + msg + snap[off + L:]:
            return None, ('%s: buffer is %r, expected the message at offset '
                          '%d and the rest untouched' % (tag, now[:64], off))
        return ('recv', 'into', 'fits', min(B - off - L, 4)), \
            _after(rx, [nxt])
    raise HarnessError(form)


_SEND_OPS = ['send_bytes3', 'send_bytes0', 'send', 'send_bytes_big']
_RECV_OPS = ['recv_bytes', 'recv_bytes_max', 'recv_bytes_into', 'recv',
             'poll']


def _do_op(c, op):
    if op == 'send_bytes3':
        return c.send_bytes(b'abc')
    if op == 'send_bytes0':
        return c.send_bytes(b'')
    if op == 'send':
        return c.send(('x', 1))
    if op == 'send_bytes_big':
        return c.send_bytes(payload(3, 16385))
    if op == 'recv_bytes':
        return c.recv_bytes()
    if op == 'recv_bytes_max':
        return c.recv_bytes(10)
    if op == 'recv_bytes_into':
        return c.recv_bytes_into(bytearray(8))
    if op == 'recv':
        return c.recv()
    if op == 'poll':
        return c.poll()
    raise HarnessError(op)


def _forms_handle(ex, rx, tx, c):
    state, op = c['state'], c['op']
    pend = b'PEND'
    tx.send_bytes(pend)
    if state == 'closed-r':
        rx.close()
        victim = rx
    elif state == 'closed-w':
        tx.close()
        victim = tx
    elif state in ('closefail-r', 'closefail-w'):
        # close(2) itself reports an error (EIO): the handle is closed all
        # the same and rejects every later call before touching the kernel
        victim = rx if state == 'closefail-r' else tx
        ex.world.close_faults = {victim.fileno(): errno.EIO}
        try:
            victim.close()
        except OSError:
            pass
        if not victim.closed:
            return None, ('close() on a %s handle whose kernel close '
                          'reported EIO left the handle open (closed=False)'
                          % c['kind'])
    elif state == 'wrongdir-r':          # read-only handle used for sending
        victim = rx
    elif state == 'wrongdir-w':          # write-only handle used to receive
        victim = tx
    else:
        raise HarnessError(state)
    ex.io_reset()
    err = None
    try:
        r = _do_op(victim, op)
    except Exception as exc:
        err = type(exc).__name__
    if err is None:
        return None, '%s on a %s handle (%s) returned %r' % (
            op, state, c['kind'], r)
    if ex.attempts():
        return None, ('%s on a %s handle (%s) raised %s only after %d '
                      'kernel call(s) on the fd: %r' % (
                          op, state, c['kind'], err, ex.attempts(),
                          list(ex.iolog)))
    v = None
    if state not in ('closed-r', 'closefail-r'):
        # the stream was not disturbed
        if state not in ('closed-w', 'closefail-w'):
            tx.close()
        v = _after(rx, [pend])
    return ('handle', state, op, err), v


def _forms_case(c, real=False):
    with Exec(real=real) as ex:
        rx, tx = ex.pipe(c['kind'])
        try:
            return globals()['_forms_' + c['what']](ex, rx, tx, c)
        except Runaway as exc:
            return None, 'runaway: %s (%r)' % (exc, c)
        except vos.WouldBlock as exc:
            return None, 'blocked with the whole stream written: %s' % exc


def _off_sizes(n, full):
    """(offset, size) pairs: every valid one and the nearest invalid ones
    (``full``), or the boundary ones for long buffers."""
    out = [(None, None)]
    if full:
        for off in range(-1, n + 2):
            out.append((off, None))
            hi = max(n - off, 0) + 1
            for size in range(-1, hi + 1):
                out.append((off, size))
    else:
        for off in sorted({-1, 0, 1, 4, n - 16385, n - 16384, n - 1, n,
                           n + 1}):
            if off < -1:
                continue
            out.append((off, None))
            for size in sorted({-1, 0, 1, n - off - 1, n - off, n - off + 1,
                                16384, 16385}):
                if size >= -1:
                    out.append((off, size))
    return out


KF_MULTIBYTE = 'C13-recv-bytes-into-multibyte-items'


def forms_cases(tier, known=()):
    thorough = tier == 'thorough'
    out = []
    kinds = ('pipe', 'sock', 'sock-rev')
    small = range(0, 13) if thorough else range(0, 9)
    for kind in kinds:
        for typ in ('bytes', 'bytearray', 'memoryview', 'mv-slice',
                    'array-i', 'array-B'):
            ns = [n for n in small] + [16383, 16384, 16385, 16388, 32772]
            if typ == 'array-i':
                ns = [n for n in ns if n % 4 == 0]
            for n in ns:
                if n > 100 and kind == 'sock-rev' and not thorough:
                    continue
                for off, size in _off_sizes(n, n <= 100):
                    out.append(dict(what='send', kind=kind, typ=typ, n=n,
                                    offset=off, size=size))
        Ls = [0, 1, 2, 3, 4, 5, 8, 40, 255, 256, 16383, 16384, 16385]
        if thorough:
            Ls += [6, 7, 9, 65535, 65536, 65537]
        for L in Ls:
            forms = [('bytes',), ('obj',)]
            for M in sorted({L - 1, L, L + 1, 0, -1, L // 2}):
                forms.append(('max', M))
            for btype in ('bytearray', 'memoryview', 'array-B'):
                for B in sorted({L - 1, L, L + 3, L + 8}):
                    if B < 0:
                        continue
                    for off in sorted({0, 3, L + 4, -1, B, B + 1, 1,
                                       B - L, B - L + 1} - {None}):
                        if off < -1:
                            continue
                        forms.append(('into', btype, B, off))
            for form in forms:
                out.append(dict(what='recv', kind=kind, L=L,
                                form=list(form)))
            # receive buffers with 4-byte items: offsets are byte offsets.
            # Aligned offset and message length always; the unaligned
            # combinations only when known_findings.json lists KF_MULTIBYTE
            # (suspected defect reported by this harness' author: the
            # message is misplaced or dropped, see the final report).
            for B in sorted({L - L % 4, L + 4 - L % 4, L + 8 - L % 4}):
                for off in sorted({0, 1, 2, 4, B, B + 1, -1, B - L}):
                    if off < -1:
                        continue
                    aligned = L % 4 == 0 and off % 4 == 0
                    fits = 0 <= off and off + L <= B
                    if aligned or not fits:
                        out.append(dict(what='recv', kind=kind, L=L,
                                        form=['into', 'array-i', B, off]))
                    elif L <= 8:
                        out.append(dict(what='recv', kind=kind, L=L,
                                        form=['into', 'array-i', B, off],
                                        kf=KF_MULTIBYTE))
        for op in _SEND_OPS:
            out.append(dict(what='handle', kind=kind, state='closed-w',
                            op=op))
            if kind == 'pipe':
                out.append(dict(what='handle', kind=kind,
                                state='wrongdir-r', op=op))
        for op in _RECV_OPS:
            out.append(dict(what='handle', kind=kind, state='closed-r',
                            op=op))
            if kind == 'pipe':
                out.append(dict(what='handle', kind=kind,
                                state='wrongdir-w', op=op))
        if True:
            for op in _SEND_OPS + _RECV_OPS:
                for st in ('closefail-r', 'closefail-w'):
                    out.append(dict(what='handle', kind=kind, state=st,
                                    op=op, model_only=True))
        # a closed handle rejects the other direction's calls too
        for op in _RECV_OPS:
            out.append(dict(what='handle', kind=kind, state='closed-w',
                            op=op))
        for op in _SEND_OPS:
            out.append(dict(what='handle', kind=kind, state='closed-r',
                            op=op))
    return out


def _size_of(c):
    return c.get('n', c.get('L', 0))


def _job_forms(cases):
    outcomes = collections.Counter()
    viol = []
    validated = 0
    samples = []
    known = []
    conf_errors = []
    for c in cases:
        oc, v = _forms_case(c)
        outcomes[repr(oc)] += 1
        if v and c.get('kf'):
            known.append((c, v))
            outcomes[repr(('known-finding', c['kf']))] += 1
            continue
        if v:
            viol.append((c, [], v))
            break
        if len(samples) < 2:
            samples.append({'case': c, 'outcome': repr(oc)})
        if _size_of(c) <= 32772 and not c.get('model_only'):
            # conformance: the same case, same oracle, on the real kernel
            # objects (every read/write *attempt* on our fds is logged there)
            roc, rv = _forms_case(c, real=True)
            if rv:
                viol.append((dict(c, real=True), [],
                             'on the real kernel object: ' + rv))
                break
            if roc != oc:
                conf_errors.append(
                    'model and real kernel disagree on %r: model %r, '
                    'real %r' % (c, oc, roc))
                break
            validated += 1
    return dict(part='forms', evaluations=len(cases), outcomes=outcomes,
                violations=viol, validated=validated, samples=samples,
                decisions=0, max_depth=0, max_cost=0, known=known,
                conf_errors=conf_errors)


# ========================================================== split / peerclose
def _run_stream(cfg, prefix, sink=None):
    """Sequential driver: the sender writes the whole message sequence, the
    peer's stream optionally ends at byte ``cut``, then the receiver drains.
    Every read (and, without ``cut``, every write) is an environment choice.
    """
    env = Env(prefix)
    kind, lens = cfg['kind'], cfg['lens']
    rform, sform = cfg.get('rform', 'bytes'), cfg.get('sform', 'bytes')
    cut = cfg.get('cut')
    sent = [payload(i, L) for i, L in enumerate(lens)]
    v = None
    got = None
    try:
        with Exec(env=env) as ex:
            rx, tx = ex.pipe(kind)
            buf = vos._end(rx.fileno()).rbuf
            bounds = []
            frames = None
            if sform == 'offset':
                # measure the frames the real send_bytes produces, then send
                # them again through send_offset
                env.on = False
                frames = []
                for m in sent:
                    tx.send_bytes(m)
                    frames.append(bytes(buf.data))
                    del buf.data[:]
                ex.io_reset()
                del env.reads[:]
            env.on = cut is None
            for i, m in enumerate(sent):
                try:
                    _send_one(tx, sform, i, frames[i] if frames else m)
                except Exception as exc:
                    v = 'send #%d (%d bytes) raised %s: %s' % (
                        i, len(m), type(exc).__name__, exc)
                    break
                bounds.append(len(buf.data))
            if v is None:
                if sink is not None and sink.get('stream') is None:
                    sink['stream'] = bytes(buf.data)
                if cut is not None:
                    del buf.data[cut:]
                tx.close()
                env.on = True
                got = _drain(rx, lens, rform)
                if cut is None:
                    nfull, clean = len(sent), True
                else:
                    nfull = sum(1 for b in bounds if b <= cut)
                    clean = cut == 0 or cut in bounds
                want = _want(sent, rform)[:nfull]
                if got[:nfull] != want:
                    v = 'received %r, sent %r' % (got[:nfull + 1], want)
                elif len(got) != nfull + 1 or got[-1][0] != 'exc':
                    v = ('a message was delivered that was never completely '
                         'sent: %r after %d whole message(s)' % (
                             got[nfull:], nfull))
                elif clean and got[-1] != ('exc', 'EOFError'):
                    v = ('clean end of stream after %d message(s) reported '
                         'as %s, not EOFError' % (nfull, got[-1][1]))
                elif sink is not None and not any(
                        k.startswith('eintr') for k in env.count):
                    # (EINTR cannot be provoked on the real kernel object)
                    sink['traces'].setdefault(tuple(env.reads), got)
    except Runaway as exc:
        v = 'runaway: %s' % exc
    except vos.WouldBlock as exc:
        v = 'receiver would block although the peer has closed: %s' % exc
    if v:
        v = '%s\n  environment answers: %r' % (v, env.log)
    oc = ('stream', tuple(g[0] if g[0] != 'exc' else g[1] for g in got or ()),
          env.shape())
    return explore.Execution(env.ch.decisions, outcome=oc, violation=v,
                             log=env.log + [('received', got)],
                             status='done')


# ----------------------------------------------------- real pipe / socketpair
class _RealReader:
    """Reader thread: the real Connection over a real fd; the writer (main
    thread) emits the stream in the pieces the model's reads returned and
    lets the reader consume each piece before the next is written, so the
    kernel really returns those short reads."""

    def __init__(self, kind):
        self.kind = kind

    def run(self, stream, pieces, lens, rform):
        cv = threading.Condition()
        state = {'consumed': 0, 'chunks': []}
        saved = vos._real['read']
        vos.clear()
        rx, tx = bconn.Pipe(duplex=self.kind != 'pipe')
        rfd, wfd = rx.fileno(), tx.fileno()

        def read(fd, n):
            data = saved(fd, n)
            if fd == rfd:
                with cv:
                    state['consumed'] += len(data)
                    state['chunks'].append(len(data))
                    cv.notify_all()
            return data
        out = {}

        def reader():
            try:
                out['got'] = _drain(rx, lens, rform)
            except BaseException as exc:      # noqa
                out['got'] = ('reader-crashed', repr(exc))
            finally:
                with cv:
                    state['reader_done'] = True
                    cv.notify_all()
        vos._real['read'] = read
        os.set_blocking(wfd, False)
        t = threading.Thread(target=reader, daemon=True)
        try:
            t.start()
            pos = 0
            todo = list(pieces)
            if sum(todo) < len(stream):
                todo.append(len(stream) - sum(todo))
            for p in todo:
                piece = stream[pos:pos + p]
                while piece and not state.get('reader_done'):
                    # never block in the kernel: a reader that gave up
                    # would leave this thread stuck on a full pipe
                    try:
                        n = vos._real['write'](wfd, piece)
                    except BlockingIOError:
                        with cv:
                            cv.wait(0.02)
                        continue
                    piece = piece[n:]
                pos += p
                with cv:
                    ok = cv.wait_for(
                        lambda: state['consumed'] >= pos or
                        state.get('reader_done') or not t.is_alive(),
                        timeout=300)
                if not ok:
                    raise HarnessError('real reader did not consume %d bytes'
                                       % pos)
                if state['consumed'] < pos:
                    break                      # reader gave up early
            tx.close()
            t.join(300)
            if t.is_alive():
                raise HarnessError('real reader did not finish')
        finally:
            vos._real['read'] = saved
            for c in (rx, tx):
                try:
                    c.close()
                except OSError:
                    pass
        return out['got'], [c for c in state['chunks'] if c]


def _real_wire(kind, lens, sform):
    """The real sender over the real kernel object; raw reader in this
    thread.  Returns the byte stream."""
    vos.clear()
    rx, tx = bconn.Pipe(duplex=kind != 'pipe')
    err = []

    def sender():
        try:
            for i, L in enumerate(lens):
                _send_one(tx, sform, i, payload(i, L))
            tx.close()
        except BaseException as exc:          # noqa
            err.append(repr(exc))
            tx.close()
    t = threading.Thread(target=sender, daemon=True)
    t.start()
    chunks = []
    fd = rx.fileno()
    while True:
        d = vos._real['read'](fd, 1 << 20)
        if not d:
            break
        chunks.append(d)
    t.join(300)
    rx.close()
    if err:
        raise HarnessError('real sender failed: %r' % err)
    return b''.join(chunks)


def _conform(cfg, sink, max_short):
    """Replay the model's traces of one configuration on the real kernel
    object.  Returns the number of traces that agreed."""
    kind = 'pipe' if cfg['kind'] == 'pipe' else 'sock'
    lens, rform = cfg['lens'], cfg.get('rform', 'bytes')
    stream = sink['stream']
    cut = cfg.get('cut')
    if cut is not None:
        stream = stream[:cut]
    n = 0
    for pieces, got in sorted(sink['traces'].items()):
        # a short read is one that returned less than was available: count
        # the pieces beyond the minimum the default execution needs
        if len(pieces) - sink['base'] > max_short:
            continue
        rgot, rchunks = _RealReader(kind).run(stream, pieces, lens, rform)
        if rgot != got:
            raise HarnessError(
                'model and real %s disagree for %r pieces %r: model %r, '
                'real %r' % (kind, cfg, pieces, got, rgot))
        if max(pieces or (0,)) <= 4096 and list(pieces) != rchunks[
                :len(pieces)]:
            raise HarnessError(
                'real %s returned reads %r, model chose %r (%r)' % (
                    kind, rchunks, pieces, cfg))
        n += 1
    return n


def _job_stream(job):
    part, cfgs, bound, max_short = job
    st = explore.Stats()
    viol = []
    conf_errors = []
    validated = 0
    for cfg in cfgs:
        sink = {'stream': None, 'traces': {}, 'base': 0}
        first = []

        def run(prefix, expect=None, cfg=cfg, sink=sink, first=first):
            x = _run_stream(cfg, prefix, sink)
            if not first:
                first.append(len([e for e in x.log
                                  if e[0] == 'read' and e[2] != 'EINTR']))
            return x
        before = len(st.violations)
        explore.dfs(run, bound, stats=st)
        if len(st.violations) > before:
            ch, msg = st.violations[-1]
            viol.append((dict(cfg, part=part), ch, msg))
            break
        sink['base'] = first[0]
        try:
            validated += _conform(cfg, sink, max_short)
            if cfg.get('cut') is None and cfg.get('wire'):
                sform = cfg.get('sform', 'bytes')
                if sform != 'offset':
                    kind = 'pipe' if cfg['kind'] == 'pipe' else 'sock'
                    real = _real_wire(kind, cfg['lens'], sform)
                    if real != sink['stream']:
                        raise HarnessError(
                            'byte stream of the real sender differs between '
                            'the virtual and the real %s for %r' % (kind, cfg))
                    validated += 1
        except HarnessError as exc:
            # model / real kernel disagreement: never a verdict.  Reported
            # as a harness error by main() unless some job found a violation
            # (a broken tree may break the conformance replay as well).
            conf_errors.append(str(exc))
            break
    d = st.as_dict()
    d.update(part=part, violations=viol, validated=validated,
             evaluations=st.executions, configs=len(cfgs),
             conf_errors=conf_errors,
             samples=[] if viol or conf_errors else
             _sample(cfgs[0], _run_stream, bound))
    return d


ALPHA = [0, 1, 2, 3, 4, 5, 255, 256, 16383, 16384, 16385, 65535, 65536,
         65537]
ALPHA3 = [0, 1, 5, 16384, 16385, 65537]


def split_jobs(tier):
    thorough = tier == 'thorough'
    b1 = 4 if thorough else 2         # singles and pairs
    b3 = 3 if thorough else 2         # triples
    ms = 2 if thorough else 1
    jobs = []
    singles = sorted(set(range(0, 41)) | set(ALPHA))
    for kind in ('pipe', 'sock'):
        cfgs = []
        for L in singles:
            for rform in ('bytes', 'max', 'into', 'obj'):
                cfgs.append(dict(kind=kind, lens=[L], rform=rform,
                                 sform='obj' if rform == 'obj' else 'bytes',
                                 wire=rform in ('bytes', 'obj')))
            for sform in ('mv', 'bytearray', 'offset'):
                cfgs.append(dict(kind=kind, lens=[L], sform=sform,
                                 wire=True))
        for i in range(0, len(cfgs), 12):
            jobs.append(('split', cfgs[i:i + 12], b1, ms))
        # (the Connection code is the same for both kinds: the socketpair
        # gets the reduced alphabets in the quick tier)
        al = ALPHA if thorough or kind == 'pipe' else ALPHA3
        cfgs = [dict(kind=kind, lens=[a, b], wire=True)
                for a in al for b in al]
        for i in range(0, len(cfgs), 7 if thorough else 14):
            jobs.append(('split', cfgs[i:i + (7 if thorough else 14)],
                         b1, ms))
        if kind == 'pipe':
            al = ALPHA if thorough else ALPHA3
        else:
            al = ALPHA3 if thorough else [0, 5, 16385, 65537]
        cfgs = [dict(kind=kind, lens=[a, b, c]) for a in al for b in al
                for c in al]
        step = 4 if thorough else 7
        for i in range(0, len(cfgs), step):
            jobs.append(('split', cfgs[i:i + step], b3, ms))
    # multi-megabyte: a couple of cases only (cost)
    jobs.append(('split', [dict(kind='pipe', lens=[BIG], wire=True)],
                 2 if thorough else 1, 1))
    jobs.append(('split', [dict(kind='sock', lens=[3, BIG, 0], wire=True)],
                 1, 1))
    return jobs


def _cuts_long(lens):
    """{0,3,4,5,len+3,len+4} relative to the start of every message."""
    cuts = set()
    pos = 0
    for L in lens:
        for d in (0, 3, 4, 5, L + 3, L + 4):
            cuts.add(pos + d)
        pos += L + 4
    return sorted(c for c in cuts if c <= pos)


def peerclose_jobs(tier):
    thorough = tier == 'thorough'
    bound = 3 if thorough else 2
    ms = 2 if thorough else 1
    jobs = []
    for kind in ('pipe', 'sock'):
        seqs = [[L] for L in range(0, 41)]
        small = [0, 1, 2, 5] if not thorough else [0, 1, 2, 3, 5, 9]
        seqs += [[a, b] for a in small for b in small]
        seqs += [[a, b, c] for a in small[:3] for b in small[:3]
                 for c in small[:3]]
        for lens in seqs:
            total = sum(lens) + 4 * len(lens)
            cfgs = [dict(kind=kind, lens=lens, cut=k)
                    for k in range(0, total + 1)]
            if lens in ([5], [17], [40], [1, 2]):
                cfgs += [dict(kind=kind, lens=lens, cut=k, rform='into')
                         for k in range(0, total + 1)]
            jobs.append(('peerclose', cfgs, bound, ms))
        longs = [[255], [16384], [16385], [65537], [5, 16385], [16385, 5],
                 [0, 65537, 1], [300, 300]]
        if thorough:
            longs += [[256], [16383], [65535], [65536], [16384, 16385],
                      [BIG]]
        for lens in longs:
            cfgs = [dict(kind=kind, lens=lens, cut=k)
                    for k in _cuts_long(lens)]
            jobs.append(('peerclose', cfgs, bound, ms))
    return jobs


def _sample(cfg, run, bound):
    """One explored case written out: the first execution of ``cfg`` that
    deviates from the default at its last decision."""
    x = run(cfg, [])
    kids = explore.children(x, 0, bound)
    if kids:
        x = run(cfg, kids[-1])
    return [{'config': cfg, 'choices': x.choices[:40],
             'environment': [repr(e) for e in x.log[:12]],
             'outcome': repr(x.outcome)}]


# ====================================================================== conc
def _run_conc(cfg, prefix):
    """Sender and receiver as two vthreads of different virtual processes;
    pipe capacity ``cap`` (messages larger than the buffer block the sender
    until the receiver drains)."""
    env = Env(prefix)
    env.on = bool(cfg.get('envio'))
    sc = vs.Scheduler(env.ch, horizon=1000.0 + 120.0,
                      timer_deviation=bool(cfg.get('timers')),
                      max_steps=20000)
    kind, lens, mode = cfg['kind'], cfg['lens'], cfg.get('mode', 'oneway')
    rform = cfg.get('rform', 'bytes')
    sent = [payload(i, L) for i, L in enumerate(lens)]
    res = {}
    v = None
    status = None
    try:
        with Exec(env=env, cap=cfg['cap'], sched=sc) as ex:
            rx, tx = ex.pipe(kind)

            if mode == 'oneway':
                def sender():
                    for i, m in enumerate(sent):
                        _send_one(tx, 'bytes', i, m)
                    tx.close()
                    return 'sent'

                def receiver():
                    res['got'] = _drain(rx, lens, rform, cfg.get('poll'))
                    return 'drained'
            else:
                # echo over a duplex connection: both directions in use
                def sender():
                    out = []
                    for i, m in enumerate(sent):
                        tx.send_bytes(m)
                        try:
                            out.append(_summ(tx.recv_bytes()))
                        except Exception as exc:
                            out.append(('exc', type(exc).__name__))
                            break
                    tx.close()
                    res['echo'] = out
                    return 'sent'

                def receiver():
                    out = []
                    while True:
                        try:
                            m = rx.recv_bytes()
                        except Exception as exc:
                            out.append(('exc', type(exc).__name__))
                            break
                        out.append(_summ(m))
                        rx.send_bytes(m)
                    res['got'] = out
                    return 'drained'
            ts = sc.spawn(sender, 'S', pid=5001)
            tr = sc.spawn(receiver, 'R', pid=5002)
            status = sc.run()
            errs = [(t.name, type(t.exc).__name__, str(t.exc)[:200])
                    for t in (ts, tr) if t.exc is not None]
            want = _want(sent, rform) + [('exc', 'EOFError')]
            if errs:
                v = 'exception escaped: %r' % (errs,)
            elif status != 'done':
                v = ('sender/receiver did not finish (%s): %r; received so '
                     'far %r' % (status, sc.describe(), res.get('got')))
            elif res.get('got') != want:
                v = 'received %r, sent %r' % (res.get('got'), want)
            elif mode == 'echo' and res.get('echo') != want[:-1]:
                v = 'echo received %r, sent %r' % (res.get('echo'), want[:-1])
    except Runaway as exc:
        v = 'runaway: %s' % exc
    if v:
        v = '%s\n  environment answers: %r' % (v, env.log)
    got = res.get('got') or ()
    nsw = sum(1 for d in env.ch.decisions
              if d.label.startswith('sched:') and d.chosen)
    oc = ('conc', status, tuple(g[0] if g[0] != 'exc' else g[1] for g in got),
          env.shape(), min(nsw, 3))
    return explore.Execution(env.ch.decisions, outcome=oc, violation=v,
                             log=env.log + [('result', res)], status=status)


def conc_jobs(tier):
    thorough = tier == 'thorough'
    b = 3 if thorough else 2
    jobs = []

    def add(cfg, bound):
        jobs.append(('conc', [cfg], bound, 0))
    for kind in ('pipe', 'sock'):
        # tiny capacities: every message is larger than the buffer
        for cap in (1, 3, 5, 8):
            for lens in ([0], [1], [5], [0, 3], [6, 1], [2, 0, 9]):
                add(dict(kind=kind, lens=lens, cap=cap),
                    b + 1 if len(lens) < 3 else b)
            add(dict(kind=kind, lens=[7], cap=cap, rform='into'), b)
            add(dict(kind=kind, lens=[4, 2], cap=cap, poll=1.0,
                     timers=True), b)
            add(dict(kind=kind, lens=[3, 0], cap=cap, envio=True),
                b if cap <= 3 or thorough else b - 1)
        for lens in ([40], [17, 23]):
            add(dict(kind=kind, lens=lens, cap=16), b + 1)
            add(dict(kind=kind, lens=lens, cap=16, envio=True), b)
        for cap in (2, 4, 7):
            add(dict(kind=kind, lens=[1, 0, 2], cap=cap, envio=True), b)
            add(dict(kind=kind, lens=[9], cap=cap, rform='max', envio=True),
                b)
        for lens in ([255], [16384], [16385], [16385, 16384]):
            for cap in (64, 4096, 16384):
                add(dict(kind=kind, lens=lens, cap=cap), b)
        add(dict(kind=kind, lens=[16385], cap=4096, envio=True), b - 1)
        add(dict(kind=kind, lens=[16385, 3], cap=16388, poll=0.5,
                 timers=True), b)
        # the real default capacity with messages around and above it
        for lens in ([65537], [65536, 1], [16385, 65535], [70000, 70000]):
            add(dict(kind=kind, lens=lens, cap=65536), b)
            add(dict(kind=kind, lens=lens, cap=65536, envio=True), b - 1)
        add(dict(kind=kind, lens=[200000], cap=65536), b)
        add(dict(kind=kind, lens=[BIG], cap=65536), 1)
    for cap in (1, 4, 9):
        for lens in ([0], [5], [3, 6], [10, 0, 1]):
            add(dict(kind='sock', lens=lens, cap=cap, mode='echo'), b)
    add(dict(kind='sock', lens=[65537, 3], cap=65536, mode='echo'), b)
    if thorough:
        add(dict(kind='sock', lens=[BIG], cap=65536, mode='echo'), 1)
    return jobs


def _job_conc(job):
    part, cfgs, bound, _ = job
    st = explore.Stats()
    viol = []
    for cfg in cfgs:
        before = len(st.violations)
        explore.dfs(lambda p, e=None, cfg=cfg: _run_conc(cfg, p), bound,
                    stats=st)
        if len(st.violations) > before:
            ch, msg = st.violations[-1]
            viol.append((dict(cfg, part=part), ch, msg))
            break
    d = st.as_dict()
    d.update(part=part, violations=viol, validated=0,
             evaluations=st.executions, configs=len(cfgs),
             samples=[] if viol else _sample(cfgs[0], _run_conc, bound))
    return d


# ==================================================================== driver
def _job(job):
    part = job[0]
    if part == 'forms':
        return _job_forms(job[1])
    if part in ('split', 'peerclose'):
        return _job_stream(job)
    if part == 'conc':
        return _job_conc(job)
    raise HarnessError(part)


def all_jobs(tier, only=None, known=()):
    jobs = []
    if not only or 'forms' in only:
        cases = forms_cases(tier, known)
        cases.sort(key=lambda c: -_size_of(c))
        nchunk = 48
        for i in range(nchunk):
            part = cases[i::nchunk]
            if part:
                jobs.append(('forms', part))
    if not only or 'split' in only:
        jobs += split_jobs(tier)
    if not only or 'peerclose' in only:
        jobs += peerclose_jobs(tier)
    if not only or 'conc' in only:
        jobs += conc_jobs(tier)
    return jobs


BOUNDS = {
    'quick': 'split: deviations<=2 (2 MiB+1: <=1); peerclose: deviations<=2; '
             'conc: preemptions+deviations<=2 (<=3 for 1-2 messages over '
             'capacities 1..8, <=1 with environment choices on large '
             'capacities and for 2 MiB+1)',
    'thorough': 'split: deviations<=4 for 1-2 messages, <=3 for triples '
                '(full alphabet on the pipe, reduced on the socketpair); '
                'peerclose: <=3; conc: <=3 (<=4 for 1-2 messages over '
                'capacities 1..8)',
}


def main(tier, seed, only=None):
    rep = report.Report('C13', tier, seed)
    t0 = time.time()
    known = [f['signature'] for f in rep._known_entries]
    jobs = all_jobs(tier, only, known)
    order = list(range(len(jobs)))
    random.Random(seed).shuffle(order)
    # expensive jobs first would depend on an estimate; a seeded shuffle
    # with one job per task balances well enough
    res = par.pmap('harness.c13:_job', [jobs[i] for i in order], chunksize=1)
    by = {}
    conf_errors = []
    for i, d in sorted(zip(order, res), key=lambda p: p[0]):
        conf_errors += d.get('conf_errors', [])
        part = d['part']
        agg = by.setdefault(part, dict(
            evaluations=0, decisions=0, max_depth=0, max_cost=0,
            outcomes=collections.Counter(), validated=0, configs=0,
            samples=[], capped=False))
        agg['evaluations'] += d['evaluations']
        agg['decisions'] += d['decisions']
        agg['max_depth'] = max(agg['max_depth'], d['max_depth'])
        agg['max_cost'] = max(agg['max_cost'], d['max_cost'])
        agg['outcomes'].update(d['outcomes'])
        agg['validated'] += d['validated']
        agg['configs'] += d.get('configs', d['evaluations'])
        agg['capped'] = agg['capped'] or d.get('capped', False)
        if len(agg['samples']) < 3:
            agg['samples'] += d['samples'][:1]
        for cfg, ch, msg in d['violations']:
            if len(rep.violations) < 5:
                _confirm(cfg, ch, msg)
            rep.violation('%s\nconfig=%r' % (msg, cfg),
                          dict(harness='c13', config=cfg, choices=ch))
        for cfg, msg in d.get('known', ()):
            rep.violation('%s\nconfig=%r' % (msg, cfg),
                          dict(harness='c13', config=cfg, choices=[]),
                          signature=cfg['kf'])
    if conf_errors and not rep.violations:
        raise HarnessError('conformance: %d disagreement(s) between the '
                           'virtual and the real kernel objects, first: %s'
                           % (len(conf_errors), conf_errors[0]))
    for part in sorted(by):
        a = by[part]
        rep.part(part, evaluations=a['evaluations'],
                 transitions=a['decisions'], states=len(a['outcomes']),
                 outcomes=a['outcomes'].keys(), samples=a['samples'],
                 capped=a['capped'], validated=a['validated'],
                 configs=a['configs'], max_depth=a['max_depth'],
                 max_cost=a['max_cost'])
    rep.cov['bounds'] = BOUNDS[tier]
    rep.cov['jobs'] = len(jobs)
    rep.cov['explore_wall_s'] = round(time.time() - t0, 2)
    rep.assume(
        'VBuf/VEnd model a kernel pipe / one direction of a socketpair: a '
        'byte FIFO with capacity, reader/writer counts and EOF; a read may '
        'return any non-empty prefix of what is buffered or EINTR, a write '
        'likewise (answers explored: all / 1 byte / half / EINTR)',
        'conformance: every forms case and every model trace with at most '
        '1 (quick) / 2 (thorough) short reads is replayed on a real os.pipe() '
        'or socket.socketpair() with a reader thread; results must be '
        'identical (EINTR cannot be provoked on the real kernel since PEP '
        '475 and is model-only; short writes are model-only: the real '
        'sender\'s byte stream is compared instead)',
        'peer close is modelled as the stream ending after byte k of what '
        'the real sender wrote',
        'array(\'i\') offsets are byte offsets (as in CPython); receiving '
        'buffers have 1-byte items',
        'EINTR out of poll() is not modelled (unreachable since PEP 475)',
        'messages of 2 GiB and more (the framing limit itself) are not '
        'executed; the largest message is 2 MiB + 1')
    return rep.finish()


def _rerun(cfg, choices):
    """Re-execute one case without the explorer -> (violation, log)."""
    if cfg.get('what'):
        oc, v = _forms_case(cfg, real=bool(cfg.get('real')))
        return v, [('case', cfg), ('outcome', oc)]
    if cfg.get('part') == 'conc':
        x = _run_conc(cfg, choices)
    else:
        x = _run_stream(cfg, choices)
    log = [('decision', i, d.label, '%d of %d' % (d.chosen, d.n))
           for i, d in enumerate(x.decisions)]
    return x.violation, log + list(x.log) + [
        ('status', x.status), ('outcome', x.outcome)]


def _confirm(cfg, choices, msg):
    """A violation is reported only if two re-executions of its choice
    sequence reproduce it with identical logs; anything else is a fault of
    the machinery, never a verdict."""
    a, b = _rerun(cfg, choices), _rerun(cfg, choices)
    if repr(a) != repr(b) or a[0] != msg:
        raise HarnessError('violation did not replay deterministically: %r'
                           '\n first %r\n again %r' % (cfg, msg, a[0]))


def replay(rp):
    cfg = rp['config']
    v, log = _rerun(cfg, rp['choices'])
    for e in log:
        print(repr(e)[:300])
    print('violation:', v)
    return 1 if v else 0

