"""C08 -- terminate() and termination signals always end workers promptly.
Parent half: L3 (whole pool, delay-bounded DFS).  Worker half: L1 (the real
Worker with a termination signal injected at every point)."""
import signal

from vmc import vctx  # noqa: F401
from vmc import par, report, explore


def configs(tier):
    T = tier == 'thorough'
    out = []
    SL = [('apply', 'sleepy', 6.0)]
    SL2 = [('apply', 'sleepy', 6.0), ('apply', 'sleepy', 6.0),
           ('apply', 'ok', 3)]
    OK2 = [('apply', 'ok', 1), ('apply', 'ok', 2)]
    IE = [('apply', 'inexc', 1)]
    W2 = [('apply', 'work', 1), ('apply', 'work', 2)]
    S = lambda n: ['submit:%d' % i for i in range(n)]          # noqa: E731
    base = [
        ('idle/1proc', 1, [], ['terminate', 'terminate'], {}),
        ('idle/2proc', 2, [], ['sleep:1.0', 'terminate'], {}),
        ('in-task/1proc', 1, SL, S(1) + ['sleep:2.5', 'terminate',
                                         'terminate'], {}),
        ('in-task+queued/2proc', 2, SL2, S(3) + ['sleep:2.5', 'terminate'],
         {}),
        ('right-after-submit/2proc', 2, OK2, S(2) + ['terminate'], {}),
        ('after-results/2proc', 2, OK2, S(2) + ['wait:0', 'wait:1',
                                               'terminate', 'terminate'], {}),
        ('after-close/2proc', 2, OK2, S(2) + ['close', 'terminate'], {}),
        ('in-except/1proc', 1, IE, S(1) + ['terminate'], {}),
        ('points/2proc', 2, W2, S(2) + ['terminate'], {}),
        ('finaliser/2proc', 2, OK2, S(2) + ['drop'], {}),
        ('terminate_job/2proc', 2, SL + [('apply', 'ok', 2)],
         S(2) + ['sleep:1.0', 'tjob:0', 'wait:0', 'wait:1', 'close', 'join'],
         {}),
        ('hard-limit/1proc', 1, SL + [('apply', 'ok', 2)],
         S(2) + ['wait:0', 'wait:1', 'close', 'join'], dict(timeout=2.0)),
        ('hard-limit/2proc', 2, SL + [('apply', 'ok', 2)],
         S(2) + ['wait:0', 'wait:1', 'terminate'], dict(timeout=2.0)),
    ]
    base += [
        # a worker that was sent a signal its task survives, then terminate()
        ('soft-signalled-then-terminate/1proc', 1,
         [('apply', 'sleepy_catch', 6.0)],
         S(1) + ['sleep:1.0', 'tjob_soft:0', 'sleep:1.0', 'terminate'], {}),
        # terminate() on a pool whose worker is a replacement (recycled /
        # killed original): everything handed the worker list at
        # construction must still see the live one
        ('replaced-then-terminate/1proc', 1, OK2,
         S(1) + ['wait:0', 'rounds:1', 'submit:1', 'terminate'],
         dict(maxtasksperchild=1)),
        ('killed-replaced-then-terminate/1proc', 1, SL,
         ['killworker:0', 'rounds:1', 'submit:0', 'sleep:1.0', 'terminate'],
         {}),
    ]
    for name, procs, jobs, script, pk in base:
        b = 1 if not T else 2
        if name == 'terminate_job/2proc':
            # the same with an exit callback that takes a while
            out.append((dict(name='terminate_job/2proc/slow-exit-callback',
                             procs=procs, jobs=jobs, script=script, pool=pk,
                             oracle='c08', slow_process_exit=True), b,
                        4000 if not T else 60000))
        out.append((dict(name=name, procs=procs, jobs=jobs, script=script,
                         pool=pk, oracle='c08'), b,
                    4000 if not T else 60000))
    # terminate() landing inside a supervision round that starts several
    # workers (needs two departures from the default schedule)
    out.append((dict(name='grow-then-terminate/1proc', procs=1, jobs=[],
                     script=['grow:2', 'sleep:0.8', 'terminate'], pool={},
                     oracle='c08'), 3, 45000 if not T else 200000))
    # without helper threads: the embedder (here the user vthread) drives
    # the handlers itself
    nothreads = [
        ('nothreads/idle/1proc', 1, [], ['sleep:0.5', 'terminate',
                                         'terminate'], {}),
        ('nothreads/idle/2proc', 2, [], ['terminate'], {}),
        ('nothreads/after-results/2proc', 2, OK2,
         S(2) + ['pump:3', 'terminate'], {}),
        ('nothreads/in-task/2proc', 2, SL + [('apply', 'ok', 2)],
         S(2) + ['pump:2', 'terminate'], {}),
        ('nothreads/queued/1proc', 1, SL2, S(3) + ['pump:1', 'terminate'],
         {}),
    ]
    for name, procs, jobs, script, pk in nothreads:
        b = 1 if not T else 2
        out.append((dict(name=name, procs=procs, jobs=jobs, script=script,
                         pool=pk, oracle='c08', threads=False), b,
                    4000 if not T else 60000))
    return out


def main(tier, seed, only=None):
    import random
    from harness import l1
    rep = report.Report('C08', tier, seed)
    cfgs = [c for c in configs(tier) if not only or c[0]['name'] in only]
    order = list(range(len(cfgs)))
    random.Random(seed).shuffle(order)
    from harness import l3
    res = l3.explore_split([cfgs[i] for i in order], want=12,
                           wall_s=1800 if tier == 'thorough' else 600)
    for i, d in zip(order, res):
        cfg, b, cap = cfgs[i]
        found = d.pop('found')
        st = explore.Stats()
        st.merge(d)
        rep.stats(cfg['name'], st, delay_bound=b, subtrees=d.get('subtrees'))
        for msg, ch, sig, log in found:
            rep.violation(msg + '\nconfig=%s log tail=%r' % (cfg['name'], log[-6:]),
                          dict(harness='l3', config=cfg, choices=ch),
                          signature=sig)
    if not only or 'remap' in only:
        remap_part(rep, tier)
    if not only or 'L1' in only:
        l1.part(rep, tier, 'L1-worker-termination-signal', [signal.SIGTERM],
                pick=lambda c: not c.get('consume') and (
                    tier == 'thorough' or len(c['tasks']) <= 2))
    rep.assume('virtual OS models as validated by the conformance runs',
               'signals reach Python code between bytecodes or by '
               'interrupting a blocking call; a call that completes at once '
               'is not torn',
               'delay-bounded scheduling (see coverage.parts.*.delay_bound)')
    return rep.finish()


def remap_part(rep, tier):
    """The termination signal is configurable (REMAP_SIGTERM=SIGQUIT is read
    when billiard.common is imported): the in-task / terminate_job / hard-limit
    scenarios again in an interpreter started with that setting."""
    import json
    import os
    import subprocess
    import sys
    env = dict(os.environ, REMAP_SIGTERM='SIGQUIT', VMC_C08_REMAP='1')
    p = subprocess.run([sys.executable, '-m', 'harness.c08'], env=env,
                       stdout=subprocess.PIPE, stderr=subprocess.PIPE,
                       timeout=1500)
    try:
        res = json.loads(p.stdout.decode().strip().splitlines()[-1])
    except Exception:
        raise RuntimeError('remap part failed: %s %s' % (
            p.stdout[-500:], p.stderr[-1500:]))
    st = explore.Stats()
    for name, d in res:
        found = d.pop('found')
        st.merge(d)
        for msg, ch, sig, log in found:
            rep.violation('[REMAP_SIGTERM=SIGQUIT] ' + msg +
                          '\nconfig=%s' % name,
                          dict(harness='l3', config=name, choices=ch,
                               remap='SIGQUIT'), signature=sig)
    rep.stats('remapped-termination-signal', st, delay_bound=1,
              configs=len(res))


def _remap_main():
    import json
    from harness import l3
    from vmc import par
    par.pin()
    import billiard.common as bc
    assert bc.TERM_SIGNAME == 'SIGQUIT', bc.TERM_SIGNAME
    want = ('in-task/1proc', 'terminate_job/2proc', 'hard-limit/1proc',
            'in-task+queued/2proc')
    out = []
    for cfg, b, cap in configs('quick'):
        if cfg['name'] in want:
            out.append((cfg['name'], l3.explore_cfg((cfg, 1, 1500))))
    print(json.dumps(out, default=repr))


def replay(rp):
    if rp.get('harness') == 'l1':
        from harness import l1
        return l1.replay(rp)
    from harness import l3
    return l3.replay(rp)


if __name__ == '__main__':
    import os as _os
    if _os.environ.get('VMC_C08_REMAP'):
        _remap_main()
