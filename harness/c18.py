"""C18 -- connection authentication is mutual and exact.

The real ``Listener.__init__``, ``Listener.accept``, ``Client``,
``deliver_challenge`` and ``answer_challenge`` of billiard/connection.py run
over a virtual socketpair (``connection.Pipe(duplex=True)`` inside a virtual
world); the only substitutions are the two transport factories
``connection.SocketListener`` / ``connection.SocketClient`` (module globals
looked up by the real ``Listener.__init__`` / ``Client`` bodies), which hand
out the two ends of that socketpair instead of a kernel socket.

Parts (DESIGN.md section 5, C18):

(a) honest x honest for a table of 19 key pairs: every interleaving of the
    two sides' kernel operations (unbounded; the space is small), and again
    with the kernel performing reads/writes short (preemptions + short
    operations <= 2 quick / 3 thorough);
(b) honest x scripted adversary: all 12**3 scripts against each honest role
    and each key size (see ``expected`` for what the statement demands);
(c) freshness of the challenge over consecutive sessions (os.urandom is the
    counter source of the virtual OS);
(d) non-bytes keys, and pickling of ``AuthenticationString``;
plus a conformance replay of the key table and of the single-deviation scripts
over kernel AF_UNIX sockets with the untouched SocketListener/SocketClient.
"""
import hmac as _hmac
import itertools
import pickle
import struct

from vmc import vctx, vos, sched as vs, explore, par, report
from billiard import connection as bc
from billiard import util as butil
from billiard import AuthenticationError
from billiard.process import AuthenticationString
from billiard.reduction import ForkingPickler

CHALLENGE, WELCOME, FAILURE = b'#CHALLENGE#', b'#WELCOME#', b'#FAILURE#'
PING_L, PING_C = b'ping-from-listener', b'ping-from-client'

# ------------------------------------------------------------------ seams
# hmac.new is looked up at call time by deliver_/answer_challenge ("import
# hmac" inside the function body): count the calls made by billiard code, per
# vthread, so that part (d) can state "no digest was computed".
_real_hmac_new = _hmac.new
HMAC_CALLS = []


def _counting_hmac_new(*a, **kw):
    vt = vs.current()
    HMAC_CALLS.append(vt.name if vt is not None else 'seq')
    return _real_hmac_new(*a, **kw)


_hmac.new = _counting_hmac_new

_ENDPOINTS = {}           # address -> (listener end, client end)


class _StubSocketListener:
    """Stands in for ``connection.SocketListener``: a bound socket whose
    accept() yields the listener end of the virtual socketpair."""

    def __init__(self, address, family, backlog=1):
        self._address, self._family = address, family
        self._last_accepted = None

    def accept(self):
        self._last_accepted = 'virtual-peer'
        return _ENDPOINTS[self._address][0]

    def close(self):
        pass


def _stub_socket_client(address):
    return _ENDPOINTS[address][1]


_REAL_TRANSPORT = (bc.SocketListener, bc.SocketClient)
_STUB_TRANSPORT = (_StubSocketListener, _stub_socket_client)
bc.SocketListener, bc.SocketClient = _STUB_TRANSPORT


# ------------------------------------------------------------------- keys
def _base_key(size):
    # no zero bytes anywhere (see the HMAC note in main())
    return bytes((i * 7 + 3) % 251 + 1 for i in range(size))


def _variant(key, variant):
    if variant == 'equal':
        return key
    if variant == 'flip':
        b = bytearray(key)
        b[len(b) // 2] ^= 0x10
        return bytes(b)
    if variant == 'prefix':
        return key[:-1]
    if variant == 'extended':
        return key + b'\x01'
    if variant == 'nulpad':
        # a different key that HMAC (RFC 2104) cannot tell from ``key`` when
        # both are shorter than the digest's block size (finding F30)
        return key + b'\x00'
    raise ValueError(variant)


SIZES = (1, 16, 4096)
UNBOUNDED = 1000


# ------------------------------------------------------------ one execution
def _tap(world, op, fd, n):
    """io_policy used as a wire tap: records the bytes each fd receives.
    With ``world.c18_split`` the kernel may also perform any read/write of
    n > 1 bytes short (1 byte, or half): an explored environment choice,
    one deviation each."""
    k = n
    if world.c18_split and n > 1 and vs.current() is not None:
        opts = [n, 1] + ([n // 2] if n // 2 > 1 else [])
        k = opts[world.sched.choose(len(opts), 'io:%s:%d' % (op, n))]
    if op == 'read':
        world.c18_rx.setdefault(fd, bytearray()).extend(
            world.fds[fd][0].rbuf.data[:k])
    return k


def _frames(stream):
    out, i = [], 0
    while i + 4 <= len(stream):
        n, = struct.unpack('!i', bytes(stream[i:i + 4]))
        if n < 0 or i + 4 + n > len(stream):
            out.append(('partial', n))
            break
        out.append(bytes(stream[i + 4:i + 4 + n]))
        i += 4 + n
    return out


def _kind(frame):
    if not isinstance(frame, bytes):
        return 'partial'
    if frame.startswith(CHALLENGE):
        return 'CH%d' % (len(frame) - len(CHALLENGE))
    if frame == WELCOME:
        return 'W'
    if frame == FAILURE:
        return 'F'
    if frame in (PING_L, PING_C):
        return 'ping'
    return 'x%d' % len(frame)


class Env:

    def __init__(self, prefix, max_steps=4000):
        self.choices = vs.Choices(prefix)
        self.sched = vs.Scheduler(self.choices, timer_deviation=False,
                                  max_steps=max_steps)
        self.log = []
        self.conns = []
        self.nsess = 0
        self.world = None
        # billiard.util._finalizer_registry IS multiprocessing.util's: never
        # clear it wholesale (vctx.reset_billiard_globals would unregister
        # the terminate-finalizer of vmc.par's pool and make shutdown hang);
        # drop only what this execution registered
        self.finalizers = set(butil._finalizer_registry)
        del HMAC_CALLS[:]

    def arm(self, world, split=False):
        self.world = world
        world.c18_rx = {}
        world.c18_split = split
        world.io_policy = _tap
        world.io_logging = True

    def ev(self, *a):
        self.log.append(a)

    def session(self):
        l, c = bc.Pipe(duplex=True)
        addr = 'vsock-%d' % self.nsess
        self.nsess += 1
        _ENDPOINTS[addr] = (l, c)
        self.conns += [l, c]
        return addr, l, c

    def rx(self, conn_fd):
        return _frames(self.world.c18_rx.get(conn_fd, b''))

    def finish(self):
        for c in self.conns:
            try:
                c.close()
            except OSError:
                pass
        _ENDPOINTS.clear()
        for k in list(butil._finalizer_registry):
            if k not in self.finalizers:
                del butil._finalizer_registry[k]


def _quiet_close(conn):
    try:
        conn.close()
    except OSError:
        pass


def _exc_name(exc):
    if isinstance(exc, AuthenticationError):
        return 'AuthenticationError'
    return type(exc).__name__


def _honest(env, side, addr, key, res, tag, ping, ctor_log=None):
    """The body of an honest participant: the real Listener(...).accept() or
    the real Client(...).  What it is handed (or the exception) goes to
    ``res[tag]``.  A participant whose call raised drops the failed
    connection (that is what happens to the local ``c`` of accept()/Client()
    when the exception is handled), one that was handed a connection closes
    it after the optional usability exchange."""
    end = _ENDPOINTS[addr][0 if side == 'listener' else 1]

    def run():
        try:
            if side == 'listener':
                lst = bc.Listener(addr, authkey=key)
                if ctor_log is not None:
                    ctor_log.append('constructed')
                conn = lst.accept()
            else:
                conn = bc.Client(addr, authkey=key)
        except Exception as exc:                                # noqa
            env.ev(tag, 'raised', _exc_name(exc), str(exc)[:60])
            res[tag] = ('exc', _exc_name(exc))
            _quiet_close(end)
            return
        env.ev(tag, 'returned-connection')
        got = None
        if ping:
            try:
                conn.send_bytes(PING_L if side == 'listener' else PING_C)
                got = conn.recv_bytes()
            except Exception as exc:                            # noqa
                got = 'exc:' + _exc_name(exc)
            env.ev(tag, 'exchange', got)
        res[tag] = ('conn', got)
        _quiet_close(end)
    return run


def _execution(env, outcome, violation):
    return explore.Execution(env.choices.decisions, outcome=outcome,
                             violation=violation, log=env.log,
                             status=env.sched.status,
                             extra={'steps': env.sched.steps})


# ---- (a) honest x honest ----------------------------------------------------
def _run_honest(cfg, prefix):
    base = _base_key(cfg['size'])
    var = _variant(base, cfg['variant'])
    kl, kc = (var, base) if cfg['holder'] == 'listener' else (base, var)
    env = Env(prefix)
    with vos.fresh(env.sched) as world:
        env.arm(world, cfg.get('split', False))
        world.urandom_prefix = bytes(cfg.get('chal_prefix', ()))
        addr, l, c = env.session()
        lfd, cfd = l.fileno(), c.fileno()
        res = {}
        env.sched.spawn(_honest(env, 'listener', addr, kl, res, 'L', True),
                        'L', pid=5001)
        env.sched.spawn(_honest(env, 'client', addr, kc, res, 'C', True),
                        'C', pid=5002)
        env.sched.run()
        st = env.sched.status
        rl, rc = res.get('L'), res.get('C')
        wire = (tuple(_kind(f) for f in env.rx(lfd)),
                tuple(_kind(f) for f in env.rx(cfd)))
        env.ev('wire', 'listener-received', wire[0], 'client-received',
               wire[1])
        v = None
        if kl == kc:
            if rl != ('conn', PING_C) or rc != ('conn', PING_L):
                v = ('equal keys (%d bytes) but the handshake did not give '
                     'both sides a usable connection: accept() -> %r, '
                     'Client() -> %r, scheduler %s %r'
                     % (len(kl), rl, rc, st, env.sched.describe()))
        else:
            want = ('exc', 'AuthenticationError')
            if rl != want or rc != want:
                v = ('different keys (%s, listener %d bytes / client %d '
                     'bytes) but accept() -> %r, Client() -> %r (both must '
                     'raise AuthenticationError and neither may be handed a '
                     'connection), scheduler %s %r'
                     % (cfg['variant'], len(kl), len(kc), rl, rc, st,
                        env.sched.describe()))
        env.finish()
    first = ''.join(e[0] for e in env.log
                    if e[1] in ('raised', 'returned-connection'))
    return _execution(env, ('honest', kl == kc, rl, rc, st, wire, first), v)


# ---- (b) honest x adversary ---------------------------------------------------
ALPHABET = ('correct', 'wrongkey', 'bitflip', 'truncated', 'empty', 'echo',
            'replay', 'welcome', 'failure', 'challenge', 'long257', 'eof')
# the peer's message slots, by the honest role it talks to
SLOTS = {'listener': ('digest', 'challenge', 'verdict'),
         'client': ('challenge', 'verdict', 'digest')}
ADV_NONCE = bytes(range(0xc0, 0xc0 + 20))
ADV_FRESH = bytes(range(0xe0, 0xe0 + 20))


def expected(role, script):
    """What the property demands of the honest side for this script.

    'accept'  every slot carries the protocol's message (the peer proved the
              key and accepted our proof): the honest side must be handed a
              connection (the 'if' half of the statement);
    'refuse'  a digest slot carries anything but the correct digest, a
              verdict slot anything but WELCOME, or the peer hung up: the
              honest side must raise and must not be handed a connection;
    'either'  the only departures are in the slot where the peer sends *its
              own challenge* (another well-formed challenge, a reflected or
              replayed one, garbage): the peer still proved the key and
              accepted our proof, the statement does not say what to do,
              nothing is demanded except termination.
    """
    exp = 'accept'
    for kind, label in zip(SLOTS[role], script):
        if label == 'eof':
            return 'refuse'
        if label == 'correct' or (kind == 'verdict' and label == 'welcome'):
            continue
        if kind == 'challenge':
            exp = 'either'
            continue
        return 'refuse'
    return exp


def _adversary(env, role, conn, key, other, script, prev, sent):
    """The scripted peer of the honest ``role``.  It reads what the honest
    side sends before each of its slots (needed to compute the control
    answer), plays the slot, and closes when the script is over or the
    honest side has gone."""
    kinds = SLOTS[role]
    state = {'challenge': None, 'nonce': b''}

    def recv():
        m = conn.recv_bytes(1 << 20)
        if m.startswith(CHALLENGE):
            state['challenge'] = m
            state['nonce'] = m[len(CHALLENGE):]
        env.ev('A', 'received', _kind(m))
        return m

    def message(kind, label):
        canon = {'digest': _real_hmac_new(key, state['nonce'],
                                          'md5').digest(),
                 'challenge': CHALLENGE + ADV_NONCE,
                 'verdict': WELCOME}[kind]
        if label == 'correct':
            return canon
        if label == 'wrongkey':
            return _real_hmac_new(other, state['nonce'], 'md5').digest()
        if label == 'bitflip':
            b = bytearray(canon)
            b[-1] ^= 1
            return bytes(b)
        if label == 'truncated':
            return canon[:len(canon) // 2]
        if label == 'empty':
            return b''
        if label == 'echo':
            # the honest side's own challenge reflected; before it sent one,
            # the challenge observed in the previous session
            return state['challenge'] if state['challenge'] is not None \
                else prev['challenge']
        if label == 'replay':
            return prev['digest']
        if label == 'welcome':
            return WELCOME
        if label == 'failure':
            return FAILURE
        if label == 'challenge':
            return CHALLENGE + ADV_FRESH
        if label == 'long257':
            return b'\xaa' * 257
        raise ValueError(label)

    def run():
        try:
            for i, (kind, label) in enumerate(zip(kinds, script)):
                if not (kind == 'challenge' and i == 0):
                    recv()
                if label == 'eof':
                    env.ev('A', 'slot', i, kind, label)
                    sent.append(None)
                    return 'eof'
                m = message(kind, label)
                env.ev('A', 'slot', i, kind, label, len(m))
                sent.append(m)
                conn.send_bytes(m)
            if kinds[-1] == 'digest':
                recv()
            return 'script-done'
        except (EOFError, OSError) as exc:
            env.ev('A', 'honest side has gone', type(exc).__name__)
            return 'peer-gone'
        finally:
            _quiet_close(conn)
    return run


def _run_adv(cfg, prefix):
    role, script = cfg['role'], tuple(cfg['script'])
    key = _base_key(cfg['size'])
    other = _variant(key, 'flip')
    env = Env(prefix)
    with vos.fresh(env.sched) as world:
        env.arm(world)
        # session 0: an honest session with the same key, observed on the
        # wire -- the material the adversary replays
        addr0, l0, c0 = env.session()
        l0fd, c0fd = l0.fileno(), c0.fileno()
        r0 = {}
        env.sched.spawn(_honest(env, 'listener', addr0, key, r0, 'L0', False),
                        'L0', pid=5001)
        env.sched.spawn(_honest(env, 'client', addr0, key, r0, 'C0', False),
                        'C0', pid=5002)
        env.sched.run()
        seen_l, seen_c = env.rx(l0fd), env.rx(c0fd)
        prev = {'digest': b'\x5a' * 16, 'challenge': CHALLENGE + b'\x5a' * 20}
        try:
            # the adversary sits where the honest role's peer sat
            prev['digest'] = seen_l[0] if role == 'listener' else seen_c[2]
            prev['challenge'] = seen_c[0]
        except IndexError:
            pass                        # session 0 is judged by part (a)
        # session 1: honest role against the script
        addr, l, c = env.session()
        res, sent = {}, []
        if role == 'listener':
            hconn, aconn = l, c
        else:
            hconn, aconn = c, l
        ht = env.sched.spawn(
            _honest(env, role, addr, key, res, 'H', False), 'H', pid=5003)
        at = env.sched.spawn(
            _adversary(env, role, aconn, key, other, script, prev, sent),
            'A', pid=5004)
        env.sched.run()
        st = env.sched.status
        got = res.get('H')
        exp = expected(role, script)
        adv_closed = at.state == 'done'
        v = None
        if got is None and adv_closed:
            v = ('the honest %s neither returned nor raised although the '
                 'peer closed the connection (%s): %r'
                 % (role, st, env.sched.describe()))
        elif exp == 'accept' and (got is None or got[0] != 'conn'):
            v = ('the peer played the protocol with the right key but the '
                 'honest %s was not handed a connection: %r (%s)'
                 % (role, got, st))
        elif exp == 'refuse' and (got is None or got[0] != 'exc'):
            v = ('the honest %s was handed a connection (%r, %s) although '
                 'the peer played %r in its slots %r'
                 % (role, got, st, script, SLOTS[role]))
        env.finish()
    if v:
        v += '\nrole=%s key=%d bytes script=%r bytes sent=%r' % (
            role, len(key), script,
            [None if m is None else m[:40].hex() for m in sent])
    # how far the honest side let the peer get
    return _execution(env, ('adv', role, exp, got, len(sent), st), v)


# ---- (c) freshness -------------------------------------------------------------
def _run_fresh(cfg, prefix):
    key = _base_key(cfg['size'])
    env = Env(prefix)
    with vos.fresh(env.sched) as world:
        env.arm(world)
        nonces = []
        bad = []
        for s in range(cfg['sessions']):
            addr, l, c = env.session()
            lfd, cfd = l.fileno(), c.fileno()
            before = len(world.urandom_log)
            res = {}
            env.sched.spawn(
                _honest(env, 'listener', addr, key, res, 'L%d' % s, False),
                'L%d' % s, pid=5001)
            env.sched.spawn(
                _honest(env, 'client', addr, key, res, 'C%d' % s, False),
                'C%d' % s, pid=5002)
            env.sched.run()
            drawn = world.urandom_log[before:]
            # the challenges on the wire: what each end received
            for who, fd in (('listener', cfd), ('client', lfd)):
                ch = [f for f in env.rx(fd)
                      if isinstance(f, bytes) and f.startswith(CHALLENGE)]
                env.ev('session', s, who + "'s challenge on the wire",
                       [f.hex() for f in ch], 'os.urandom gave',
                       [d.hex() for d in drawn])
                if len(ch) != 1:
                    bad.append('session %d: %d challenge messages from the '
                               '%s on the wire (%r)' % (s, len(ch), who, res))
                    continue
                nonce = ch[0][len(CHALLENGE):]
                if nonce in nonces:
                    bad.append('session %d: the %s\'s challenge %s was '
                               'already used by an earlier challenge: not '
                               'fresh' % (s, who, nonce.hex()))
                if nonce not in drawn:
                    bad.append('session %d: the %s\'s challenge %s was not '
                               'drawn from os.urandom during this session '
                               '(source gave %r)' % (
                                   s, who, nonce.hex(),
                                   [d.hex() for d in drawn]))
                nonces.append(nonce)
            if res.get('L%d' % s, (None,))[0] != 'conn' or \
                    res.get('C%d' % s, (None,))[0] != 'conn':
                bad.append('session %d with equal keys failed: %r' % (s, res))
        v = '\n'.join(bad[:6]) or None
        st = env.sched.status
        nlog = len(world.urandom_log)
        env.finish()
    return _execution(
        env, ('fresh', cfg['size'], len(nonces), len(set(nonces)),
              tuple(len(n) for n in nonces), nlog, st), v)


# ---- (d) key types -------------------------------------------------------------
def _typed_key(name):
    return {'str': lambda: 'secret', 'str-empty': lambda: '',
            'int': lambda: 12345, 'int-zero': lambda: 0,
            'bytearray': lambda: bytearray(b'secret'),
            'bytearray-empty': lambda: bytearray(),
            'memoryview': lambda: memoryview(b'secret'),
            'none': lambda: None,
            'bytes': lambda: b'secret',
            'authstring': lambda: AuthenticationString(b'secret')}[name]()


KTYPES = ('str', 'str-empty', 'int', 'int-zero', 'bytearray',
          'bytearray-empty', 'memoryview', 'none', 'bytes', 'authstring')


def _run_ktype(cfg, prefix):
    side, name = cfg['side'], cfg['ktype']
    key = _typed_key(name)
    peer_side = 'client' if side == 'listener' else 'listener'
    peer_key = None if name == 'none' else b'secret'
    env = Env(prefix)
    with vos.fresh(env.sched) as world:
        env.arm(world)
        addr, l, c = env.session()
        tfd = (l if side == 'listener' else c).fileno()
        res = {}
        ctor = []
        env.sched.spawn(_honest(env, side, addr, key, res, 'T', True, ctor),
                        'T', pid=5001)
        env.sched.spawn(_honest(env, peer_side, addr, peer_key, res, 'P',
                                True), 'P', pid=5002)
        env.sched.run()
        st = env.sched.status
        got = res.get('T')
        # handshake traffic of the side under test (the usability exchange
        # after a returned connection is one write and two reads)
        writes = sum(1 for op, fd, n in world.io_log
                     if op == 'write' and fd == tfd)
        if got is not None and got[0] == 'conn':
            writes -= 1
        digests = HMAC_CALLS.count('T')
        env.ev('T', 'handshake writes', writes, 'digests computed', digests)
        v = None
        if name in ('bytes', 'authstring'):
            if got != ('conn', PING_C if side == 'listener' else PING_L):
                v = ('a %s key equal to the peer\'s key was not accepted: '
                     '%r (%s)' % (name, got, st))
        elif name == 'none':
            # the statement is silent about "no key"; what it forbids is
            # *using* a non-bytes key
            if writes or digests:
                v = ('authkey=None but %d handshake writes / %d digests'
                     % (writes, digests))
        else:
            if got != ('exc', 'TypeError'):
                v = ('%s(authkey=<%s>) -> %r instead of TypeError (%s)' % (
                    'Listener' if side == 'listener' else 'Client', name,
                    got, st))
            elif writes or digests:
                v = ('TypeError for a <%s> key came only after it was used: '
                     '%d handshake writes, %d digests computed'
                     % (name, writes, digests))
        env.finish()
    where = 'ctor' if (side == 'listener' and not ctor) else 'call'
    return _execution(env, ('ktype', side, name, got, where, writes, digests),
                      v)


def _authstring_table():
    """AuthenticationString pickles only while a child is being spawned."""
    rows, bad = [], []

    def attempt(label, fn, want):
        try:
            r = fn()
            got = 'pickled'
        except TypeError:
            r, got = None, 'TypeError'
        except Exception as exc:                                # noqa
            r, got = None, type(exc).__name__
        rows.append((label, got))
        if got != want:
            bad.append('%s: %s, expected %s' % (label, got, want))
        return r
    k = AuthenticationString(b'\x00secret\xff')
    for proto in range(pickle.HIGHEST_PROTOCOL + 1):
        attempt('pickle.dumps protocol %d' % proto,
                lambda: pickle.dumps(k, proto), 'TypeError')
    attempt('ForkingPickler.dumps', lambda: ForkingPickler.dumps(k),
            'TypeError')
    attempt('nested in dict', lambda: pickle.dumps({'authkey': k}),
            'TypeError')
    attempt('nested in tuple', lambda: ForkingPickler.dumps((1, k)),
            'TypeError')
    data = attempt('spawning context', lambda: vctx.dumps_for_child(k),
                   'pickled')
    if data is not None:
        back = vctx.loads_in_child(data)
        ok = type(back) is AuthenticationString and back == k
        rows.append(('round trip', 'same' if ok else 'differs'))
        if not ok:
            bad.append('round trip under a spawning context gave %r' % (back,))
        data2 = attempt('nested, spawning context',
                        lambda: vctx.dumps_for_child({'authkey': k}),
                        'pickled')
        if data2 is not None:
            back = vctx.loads_in_child(data2)['authkey']
            if type(back) is not AuthenticationString or back != k:
                bad.append('nested round trip gave %r' % (back,))
    attempt('after the spawn is over', lambda: pickle.dumps(k), 'TypeError')
    return rows, bad


# ---- conformance: the same cases over real AF_UNIX sockets -------------------
class _Log:
    def ev(self, *a):
        pass


def _real_case(cfg, addr):
    """Run an 'honest' or 'adv' configuration with the *real* transport
    (kernel AF_UNIX socket, real threads, no virtual world) and return what
    the honest side(s) got, in the virtual runner's vocabulary."""
    import threading
    res = {}

    def honest(tag, call, ping):
        def run():
            try:
                conn = call()
            except Exception as exc:                            # noqa
                res[tag] = ('exc', _exc_name(exc))
                return
            got = None
            if ping is not None:
                try:
                    conn.send_bytes(ping)
                    got = conn.recv_bytes()
                except Exception as exc:                        # noqa
                    got = 'exc:' + _exc_name(exc)
            res[tag] = ('conn', got)
            conn.close()
        return run
    if cfg['kind'] == 'honest':
        base = _base_key(cfg['size'])
        var = _variant(base, cfg['variant'])
        kl, kc = (var, base) if cfg['holder'] == 'listener' else (base, var)
        lst = bc.Listener(addr, authkey=kl)
        ts = [threading.Thread(target=honest('L', lst.accept, PING_L)),
              threading.Thread(target=honest(
                  'C', lambda: bc.Client(addr, authkey=kc), PING_C))]
    else:
        role, script = cfg['role'], tuple(cfg['script'])
        key = _base_key(cfg['size'])
        other = _variant(key, 'flip')
        prev = {'digest': b'\x5a' * 16, 'challenge': CHALLENGE + b'\x5a' * 20}
        if role == 'listener':
            lst = bc.Listener(addr, authkey=key)
            h = honest('H', lst.accept, None)
            peer = lambda: bc.Client(addr)                       # noqa
        else:
            lst = bc.Listener(addr)
            h = honest('H', lambda: bc.Client(addr, authkey=key), None)
            peer = lst.accept

        def adv():
            _adversary(_Log(), role, peer(), key, other, script, prev, [])()
        ts = [threading.Thread(target=h), threading.Thread(target=adv)]
    for t in ts:
        t.daemon = True
        t.start()
    for t in ts:
        t.join(30)
    if any(t.is_alive() for t in ts):
        res['timeout'] = True
    lst.close()
    return res


def conformance_cases():
    out = []
    for item in items('quick'):
        if item[1] == 'a-honest-x-honest':
            out.append(item[2])
    for role in ('listener', 'client'):
        for slot in range(3):
            for label in ALPHABET:
                if label in ('replay', 'echo'):
                    continue          # need the virtual world's session 0
                script = ['correct'] * 3
                script[slot] = label
                out.append(dict(kind='adv', role=role, size=16,
                                script=script))
    return out


def conformance():
    """Every case of conformance_cases() gives the honest side(s) the same
    result over the virtual socketpair + transport stubs as over a kernel
    AF_UNIX socket with the untouched SocketListener/SocketClient."""
    import os
    import shutil
    import tempfile
    cases = conformance_cases()
    virt = []
    for cfg in cases:
        x = make_runner(cfg)([], None)
        o = x.outcome
        virt.append({'L': o[2], 'C': o[3]} if cfg['kind'] == 'honest'
                    else {'H': o[3]})
    d = tempfile.mkdtemp(prefix='c18-conf-')
    mism, outs = [], set()
    bc.SocketListener, bc.SocketClient = _REAL_TRANSPORT
    try:
        for i, cfg in enumerate(cases):
            real = _real_case(cfg, os.path.join(d, 's%d' % i))
            outs.add(repr(sorted(real.items())))
            if real != virt[i]:
                mism.append((cfg, virt[i], real))
    finally:
        bc.SocketListener, bc.SocketClient = _STUB_TRANSPORT
        shutil.rmtree(d, ignore_errors=True)
    return len(cases), outs, mism


# ------------------------------------------------------------------- driver
_RUN = {'honest': _run_honest, 'adv': _run_adv, 'fresh': _run_fresh,
        'ktype': _run_ktype}


def make_runner(cfg):
    fn = _RUN[cfg['kind']]
    return lambda prefix, expect=None: fn(cfg, prefix)


def _work(item):
    """One unit of parallel work -> explore.Stats.as_dict() plus 'part'."""
    kind = item[0]
    if kind == 'dfs':
        _, part, cfg, bound = item
        st = explore.dfs(make_runner(cfg), bound)
        d = st.as_dict()
        d['violations'] = [(cfg, ch, msg) for ch, msg in d['violations']]
        d['samples'] = [dict(s, config=cfg) for s in d['samples'][:1]]
        d['part'] = part
        d['configs'] = 1
        return d
    if kind == 'table':
        _, part, cfgs = item
        st = explore.Stats()
        viol = []
        for cfg in cfgs:
            x = make_runner(cfg)([], None)
            explore._account(st, x, [])
            st.decisions += x.extra.get('steps', 0)
            if x.violation:
                viol.append((cfg, x.choices, x.violation))
        d = st.as_dict()
        d['samples'] = [dict(config=cfgs[i], outcome=s['outcome'])
                        for i, s in enumerate(d['samples'][:1])]
        d['violations'] = viol[:5]
        d['nviolations'] = len(viol)
        d['part'] = part
        d['configs'] = len(cfgs)
        return d
    raise ValueError(kind)


def items(tier):
    thorough = tier == 'thorough'
    out = []
    pairs = []
    for size in SIZES:
        pairs.append((size, 'equal', 'listener'))
        for variant in ('flip', 'prefix', 'extended'):
            if variant == 'prefix' and size == 1:
                continue              # the empty key is outside the statement
            for holder in ('listener', 'client'):
                pairs.append((size, variant, holder))
    for size, variant, holder in pairs:
        if variant == 'nulpad':
            continue
        # every interleaving of the two sides' kernel operations (no bound:
        # the space is small), kernel performs every read/write in full
        out.append(('dfs', 'a-honest-x-honest',
                    dict(kind='honest', size=size, variant=variant,
                         holder=holder, split=False), UNBOUNDED))
        # preemptions + short reads/writes (1 byte / half) within the bound
        out.append(('dfs', 'a-honest-x-honest-short-io',
                    dict(kind='honest', size=size, variant=variant,
                         holder=holder, split=True), 3 if thorough else 2))
    for size in SIZES:
        for holder in ('listener', 'client'):
            out.append(('dfs', 'a-honest-x-honest-nul-extended-key',
                        dict(kind='honest', size=size, variant='nulpad',
                             holder=holder, split=False), UNBOUNDED))
    # "whatever the challenge bytes": every value of the challenge's first
    # byte, and challenges that begin with the protocol's own markers
    specials = [b'#CHALLENGE#', b'#CHALLENGE##CHALLENGE#', b'CHALLENGE',
                b'##', b'#C', b'#WELCOME#', b'#FAILURE#', b'\x00\x00',
                b'\xff' * 8]
    prefixes = [bytes([b]) for b in range(256)] + specials
    for variant in ('equal', 'flip'):
        out.append(('table', 'a-challenge-bytes',
                    [dict(kind='honest', size=16, variant=variant,
                          holder='listener', split=False,
                          chal_prefix=list(p)) for p in prefixes]))
    for role in ('listener', 'client'):
        for size in SIZES:
            scripts = list(itertools.product(ALPHABET, repeat=3))
            nchunk = 24
            for i in range(nchunk):
                out.append(('table', 'b-honest-%s-x-adversary' % role,
                            [dict(kind='adv', role=role, size=size,
                                  script=list(s))
                             for s in scripts[i::nchunk]]))
    out.append(('table', 'c-freshness',
                [dict(kind='fresh', size=size, sessions=3)
                 for size in SIZES]))
    out.append(('table', 'd-key-types',
                [dict(kind='ktype', side=side, ktype=k)
                 for side in ('listener', 'client') for k in KTYPES]))
    return out


def main(tier, seed, only=None):
    rep = report.Report('C18', tier, seed)
    work = items(tier)
    if only:
        work = [w for w in work if w[1].split('-')[0] in only or w[1] in only]
    import random
    order = list(range(len(work)))
    random.Random(seed).shuffle(order)
    # heaviest units first (still a seed-determined permutation): the
    # equal-key short-io explorations are ~10x the rest
    order.sort(key=lambda i: not (work[i][0] == 'dfs' and
                                  work[i][2]['split'] and
                                  work[i][2]['variant'] == 'equal'))
    res = par.pmap('harness.c18:_work', [work[i] for i in order])
    parts = {}
    for d in sorted(res, key=lambda d: (d['part'], repr(d['violations']))):
        st = parts.setdefault(d['part'], explore.Stats())
        st.__dict__.setdefault('configs', 0)
        st.configs += d['configs']
        viol = d.pop('violations')
        d['violations'] = []
        st.merge(d)
        for cfg, ch, msg in viol:
            sig = None
            if (isinstance(cfg, dict) and cfg.get('variant') == 'nulpad' and
                    cfg.get('size', 64) < 64 and
                    msg.startswith('different keys') and
                    "accept() -> ('conn'," in msg and
                    "Client() -> ('conn'," in msg):
                sig = 'F30:hmac-zero-padded-key'
            rep.violation('%s\nconfig=%r' % (msg, cfg),
                          dict(harness='c18', config=cfg, choices=ch),
                          signature=sig)
    for name in sorted(parts):
        st = parts[name]
        extra = {}
        if name == 'a-honest-x-honest':
            extra['bound'] = 'none: all interleavings of kernel operations'
        elif name.startswith('a-'):
            extra['bound'] = ('preemptions + short reads/writes <= %d'
                              % (3 if tier == 'thorough' else 2))
        if name.startswith('b-'):
            extra['alphabet'] = list(ALPHABET)
            extra['slots'] = list(SLOTS[name.split('-')[2]])
        rep.stats(name, st, configs=st.configs, **extra)
    if not only or 'd' in only:
        rows, bad = _authstring_table()
        rep.part('d-authstring-pickling', evaluations=len(rows),
                 outcomes=sorted(set(rows)), samples=[repr(r) for r in rows])
        for b in bad:
            rep.violation('AuthenticationString: ' + b,
                          dict(harness='c18', config=dict(kind='authstring'),
                               choices=[]))
    # fidelity of the transport stubs; pointless (and, with real threads,
    # slow) once the explored part has already produced a verdict
    if (not only or 'conformance' in only) and not rep.violations:
        n, outs, mism = conformance()
        if mism:
            raise vs.HarnessError(
                'virtual transport and real AF_UNIX transport disagree '
                '(harness fidelity, not a verdict): %r' % (mism[:3],))
        rep.part('conformance-real-sockets', validated=n, evaluations=n,
                 outcomes=sorted(outs),
                 samples=['honest x honest key table and single-deviation '
                          'adversary scripts re-run over kernel AF_UNIX '
                          'sockets with the real SocketListener/SocketClient: '
                          'same results'])
    rep.assume(
        'the transport under Listener/Client is a virtual socketpair handed '
        'out by stubs of connection.SocketListener / SocketClient; '
        'Listener.__init__, Listener.accept, Client, deliver_challenge, '
        'answer_challenge and Connection are the real code',
        'HMAC (RFC 2104) zero-pads keys shorter than the block size, so K and '
        'K+b"\\0" are the same HMAC key although they are different keys in '
        'the sense of the statement: those pairs are run in their own part '
        '(a-honest-x-honest-nul-extended-key) and reported as known finding '
        'F30; the other key tables use extension byte 0x01 and keys without '
        'zero bytes',
        'the control answers of the adversary are computed with HMAC-MD5, '
        'the digest the pinned tree uses',
        'os.urandom is the counter source of vmc.vos; freshness = the '
        'challenge on the wire is a value the source produced during that '
        'session and no earlier challenge carried it',
        'part (b) scripts are run on the default schedule: the honest side '
        'reads its peer\'s bytes from a FIFO, so its behaviour is a function '
        'of the script, not of timing; part (a) explores timing')
    return rep.finish()


def replay(rp):
    cfg = rp['config']
    if cfg.get('kind') == 'authstring':
        rows, bad = _authstring_table()
        for r in rows:
            print(r)
        print('violation:', bad)
        return 1 if bad else 0
    x = make_runner(cfg)(rp.get('choices') or [])
    for e in x.log:
        print(e)
    print('status', x.status, 'outcome', x.outcome)
    print('violation:', x.violation)
    return 1 if x.violation else 0
