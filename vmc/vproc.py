"""Virtual processes for billiard: the real ``BaseProcess`` and the real
``popen_fork.Popen`` (poll / wait / terminate) over the virtual process table;
only ``_launch`` is replaced.  What the child *does* is pluggable:

* ``launcher = None``        -- nothing runs (event-level harnesses model the
  worker by a reference automaton and call ``vos.proc_exit`` themselves);
* ``launcher = run_child``   -- the child is a vthread running the process
  object's ``run()`` on a *pickled copy* made with billiard's spawn path.
"""
import pickle
import signal as _signal
import sys as _sys

from . import vctx, vos, vthreading
from .sched import current, ProcessKilled, HarnessError

from billiard import popen_fork, process as bprocess, context as bctx
from billiard import dummy as bdummy
import billiard.pool as bpool
import billiard.common as bcommon

launcher = None            # f(popen, process_obj, vproc)


class VPopen(popen_fork.Popen):
    method = 'fork'
    DupFd = vctx.VDupFd

    def duplicate_for_child(self, fd):
        return fd

    def _launch(self, process_obj):
        w = vos.world()
        p = vos.new_proc()
        self.pid = p.pid
        r, wfd = vos.v_pipe()
        end, _ = w.fds[wfd]
        w.fds[wfd] = (end, p.pid)          # the child owns the write end
        p.sentinel_w = wfd
        self.sentinel = r
        if launcher is not None:
            launcher(self, process_obj, p)


class VProcess(bprocess.BaseProcess):
    _start_method = None

    @staticmethod
    def _Popen(process_obj):
        return VPopen(process_obj)


class VPoolContext(vctx.VContext):
    Process = VProcess


def exit_status_of(exc):
    """What ``BaseProcess._bootstrap`` turns a SystemExit into."""
    if not exc.args:
        return 1
    a = exc.args[0]
    if isinstance(a, int):
        return a
    return 0 if isinstance(a, str) else 1


def run_child(popen, process_obj, p):
    """L3 launcher: the child is a vthread over a pickled copy."""
    w = vos.world()
    prev = bctx.get_spawning_popen()
    bctx.set_spawning_popen(popen)
    try:
        import io
        from billiard import reduction
        buf = io.BytesIO()
        reduction.dump(process_obj, buf)
        data = buf.getvalue()
    finally:
        bctx.set_spawning_popen(prev)

    def body():
        vt = current()
        vt.local['is_main'] = True
        status = 1
        try:
            obj = pickle.loads(data)
            try:
                obj.run()
                status = 0
            except SystemExit as exc:
                status = exit_status_of(exc)
            except ProcessKilled:
                raise
            except BaseException:         # noqa
                status = 1
        finally:
            if p.state == 'running':
                vos.proc_exit(p.pid, status & 0xff if status >= 0
                              else status & 0xff)
    vt = w.sched.spawn(body, 'proc%d' % p.pid, pid=p.pid)
    p.threads.append(vt)
    p.main_vt = vt


# ------------------------------------------------------------------- signals
def deliver_signal(p, sig):
    """Signal model for virtual processes that run real code (L1/L3):
    SIGKILL / default action kill at once; a caught signal runs its real
    handler inside the target's main vthread at its next scheduling point
    (or makes the blocking call it sits in raise what the handler raises)."""
    if p.is_main:
        vos.world().host_signals.append(int(sig))
        return
    h = p.handlers.get(sig, _signal.SIG_DFL)
    if sig == _signal.SIGKILL or h == _signal.SIG_DFL:
        vos.proc_exit(p.pid, -int(sig))
    elif h == _signal.SIG_IGN:
        pass
    else:
        p.pending.append(sig)
        vt = getattr(p, 'main_vt', None)
        if vt is not None:
            vt.intr = True


_IMMORTAL = []


def run_pending_signals(vt):
    w = vos.world()
    p = w.procs.get(vt.pid)
    if p is None:
        return
    while p.pending and p.state == 'running':
        sig = p.pending.pop(0)
        h = p.handlers.get(sig, _signal.SIG_DFL)
        if callable(h):
            try:
                h(sig, None)
            except BaseException:
                # The handler's exception is about to unwind through
                # Connection.send: the frames on the stack hold a memoryview
                # exported by the pickler's BytesIO, the traceback will keep
                # them in a reference cycle, and *collecting* a BytesIO whose
                # buffer is still exported crashes CPython 3.12.1.  Pin just
                # those buffer objects (a few KB) so they never die; the rest
                # of the cycle (worker, arenas, fds) stays collectable.
                import io
                f = _sys._getframe()
                while f is not None:
                    for v in list(f.f_locals.values()):
                        if isinstance(v, memoryview):
                            _IMMORTAL.append(v)
                            if isinstance(v.obj, io.BytesIO):
                                _IMMORTAL.append(v.obj)
                        elif isinstance(v, io.BytesIO):
                            _IMMORTAL.append(v)
                    f = f.f_back
                raise


def safe_collect():
    """gc.collect() that cannot trip over the CPython 3.12.1 crash
    ('deallocated BytesIO object has exported buffers'): a BytesIO whose
    buffer is exported refuses to be written to -- pin those first."""
    import gc
    import io
    for o in gc.get_objects():
        if type(o) is io.BytesIO:
            try:
                o.write(b'')
            except BufferError:
                _IMMORTAL.append(o)
            except ValueError:
                pass
    gc.collect()


# --------------------------------------------------------- per-process sys
class _SysProxy:
    """``sys`` as seen by billiard.pool / billiard.common: ``exit`` is per
    virtual process (Worker.__call__ assigns sys.exit)."""

    def __getattr__(self, name):
        return getattr(_sys, name)

    @property
    def exit(self):
        w = vos.world()
        if w is not None:
            p = w.procs.get(vos.cur_pid())
            if p is not None and p.sys_exit is not None:
                return p.sys_exit
        return _sys.exit

    @exit.setter
    def exit(self, fn):
        w = vos.world()
        p = w.procs.get(vos.cur_pid()) if w is not None else None
        if p is None:
            raise HarnessError('sys.exit assigned outside a virtual process')
        p.sys_exit = fn


class _ExitedCell:
    """common._should_have_exited as a per-virtual-process cell."""

    def _cell(self):
        w = vos.world()
        if w is not None:
            p = w.procs.get(vos.cur_pid())
            if p is not None:
                return p.sigexit
        return _fallback

    def __getitem__(self, i):
        return self._cell()[i]

    def __setitem__(self, i, v):
        self._cell()[i] = v


_fallback = [False]


# ------------------------------------------------------- thread look-alikes
def _dp_start(self, *a, **kw):
    self._start_called = True
    vthreading.start_thread(self, type(self).__name__)


def _dp_join(self, timeout=None):
    vthreading.join_thread(self, timeout)


def _dp_is_alive(self):
    vt = getattr(self, '_vt', None)
    return vt is not None and vt.state != 'done'


_bound = False


def bind():
    """Module-attribute substitutions for billiard.pool / common / dummy."""
    global _bound
    if _bound:
        return
    _bound = True
    bpool.threading = vthreading.NS
    bpool.Lock = vthreading.Lock
    bpool.Queue = vthreading.Queue
    bpool.sys = _SysProxy()
    bcommon.sys = bpool.sys
    bcommon._should_have_exited = _ExitedCell()
    if hasattr(bpool, '_should_have_exited'):
        bpool._should_have_exited = bcommon._should_have_exited
    bdummy.DummyProcess.start = _dp_start
    bdummy.DummyProcess.join = _dp_join
    bdummy.DummyProcess.is_alive = _dp_is_alive
    vos.deliver_signal = deliver_signal


def use_scheduler_aware_putlock(sem):
    """A LaxBoundedSemaphore built on the real threading.Semaphore: give it a
    scheduler-aware condition (its code runs unchanged on top)."""
    sem._cond = vthreading.Condition(vthreading.Lock())
    return sem
