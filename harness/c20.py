"""C20 -- manager proxies behave like the local object; referents live as
long as proxies.

The real ``Server`` (built by the real ``BaseManager.get_server()`` from the
real ``SyncManager`` registry), its real ``accepter`` / ``handle_request`` /
``serve_client`` thread bodies, and the real ``BaseProxy`` / ``AutoProxy`` /
``RebuildProxy`` / registered proxy types run in ONE interpreter over the
virtual OS.  The only stand-in is the transport: ``listener_client['inproc']``
whose ``Client`` makes a ``billiard.connection.Pipe(duplex=True)`` over virtual
fds, hands one end to the listener's backlog and performs the real
``answer_challenge`` / ``deliver_challenge`` handshake (exactly what
``connection.Client`` does after connecting).  Server threads are daemon
vthreads; ``billiard.managers.threading`` is ``vthreading.NS``.

Parts (DESIGN.md section 5, C20):
 (a) equiv    : all op sequences per registered type, proxy vs local object
 (b) lifetime : BFS over create / copy / child / fork / drop histories
 (c) conc     : 2 concurrent clients, DFS over interleavings, linearizability
                and reference-count invariants
 (d) key      : right / 1-bit-off / prefix keys
"""
import array
import collections
import gc
import hashlib
import itertools
import operator
import os
import pickle
import queue
import random
import threading

from vmc import vctx, vos, sched as vs, explore, par, report, vthreading
from vmc import linepoints
from vmc.sched import current

import multiprocessing.util as mpu
from billiard import managers as bm
from billiard import connection as bconn
from billiard import util as butil
from billiard import AuthenticationError

PID = 'C20'
F10 = 'F10:iteratorproxy-exposed-typo'
KEY = b'k3y!'
SERVER_PID = 50
P_PID = vos.MAIN_PID
Q_PID = 6000

# --------------------------------------------------------------- environment
# (everything in this section models the *environment* of managers.py: threads,
# per-process memory, the transport; none of it is billiard logic)

bm.threading = vthreading.NS

# Garbage collection is run only at points the harness chooses: an automatic
# collection inside a server vthread would run a proxy finalizer in the wrong
# virtual process.
gc.disable()

# util.Finalize binds os.getpid as a default argument when multiprocessing.util
# is imported; in spawned par workers that happens before the virtual OS is
# installed.  A finalizer must see the pid of the virtual process it runs in.
_d = list(mpu.Finalize.__call__.__defaults__)
_d[-1] = vos.v_getpid
mpu.Finalize.__call__.__defaults__ = tuple(_d)


class VForkAwareLocal(vthreading.local):
    """util.ForkAwareLocal keyed on the vthread (thread-local storage)."""

    def __init__(self):
        vthreading.local.__init__(self)
        butil.register_after_fork(
            self, lambda obj: object.__getattribute__(obj, '_d').clear())

    def __reduce__(self):
        return type(self), ()


butil.ForkAwareLocal = VForkAwareLocal


class PerProcessDict(dict):
    """``BaseProxy._address_to_local`` is ordinary per-process memory: every
    virtual process sees its own mapping."""

    @staticmethod
    def _k(a):
        return (vos.cur_pid() if vos.world() is not None else 0, a)

    def get(self, a, default=None):
        return dict.get(self, self._k(a), default)

    def __getitem__(self, a):
        return dict.__getitem__(self, self._k(a))

    def __setitem__(self, a, v):
        dict.__setitem__(self, self._k(a), v)

    def __delitem__(self, a):
        dict.__delitem__(self, self._k(a))

    def __contains__(self, a):
        return dict.__contains__(self, self._k(a))


bm.BaseProxy._address_to_local = PerProcessDict()


class _Net:
    listeners = {}
    conns = []
    accepter_tid = None


class Guided(vs.Choices):
    """The explored choice sequence of part (c).  While a client establishes
    a connection (socketpair, accept, thread start, authentication handshake)
    the scheduler is steered to the vthreads taking part in it and no decision
    is recorded: every step of that phase touches only the new connection, so
    it commutes with every step of every other vthread and is scheduled as
    one atomic step (a standard independence reduction; which client connects
    first is still an explored decision)."""
    group = None

    def next(self, n, costs=None, label=''):
        g = self.group
        if g is not None and label.startswith('sched:'):
            for i, tok in enumerate(label[6:].split(',')):
                if not tok.endswith('T') and g(int(tok)):
                    return i
        return vs.Choices.next(self, n, costs, label)


class _connecting:
    def __enter__(self):
        vt = current()
        self.ch = ch = vt.sched.choices if vt is not None else None
        if isinstance(ch, Guided) and ch.group is None:
            me, first_new, acc = vt.tid, len(vt.sched.threads), \
                _Net.accepter_tid
            ch.group = lambda t: t == me or t == acc or t >= first_new
        else:
            self.ch = None

    def __exit__(self, *a):
        if self.ch is not None:
            self.ch.group = None


class VListener:
    """Listener of the in-process transport: a backlog of server-side
    connection ends."""

    def __init__(self, address=None, family=None, backlog=1, authkey=None):
        self.address = address or ('inproc', len(_Net.listeners))
        self.backlog = vthreading.Queue()
        _Net.listeners[self.address] = self

    def accept(self):
        return self.backlog.get()

    def close(self):
        _Net.listeners.pop(self.address, None)


def VClient(address, family=None, authkey=None):
    """What ``connection.Client`` does, over a virtual socketpair."""
    lst = _Net.listeners.get(address)
    if lst is None:
        raise ConnectionRefusedError(111, 'Connection refused')
    if authkey is not None and not isinstance(authkey, bytes):
        raise TypeError('authkey should be a byte string')
    with _connecting():
        c, s = bconn.Pipe(duplex=True)
        _Net.conns.extend((c, s))
        lst.backlog.put(s)
        if authkey is not None:
            bconn.answer_challenge(c, authkey)
            bconn.deliver_challenge(c, authkey)
    return c


bm.listener_client['inproc'] = (VListener, VClient)


# ---- hosted helper types (the Iterator typeid is only reachable through a
# method mapped with method_to_typeid, as PoolProxy.imap does)
class Cell:
    def __init__(self, v=0):
        self.v = v

    def get(self):
        return self.v

    def set(self, v):
        self.v = v


class Src:
    def __init__(self):
        self.items = []
        self.cell = Cell(7)

    def push(self, v):
        self.items.append(v)

    def peek(self):
        return list(self.items)

    def it(self):
        return iter(list(self.items))

    def gen(self):
        items = list(self.items)

        def g():
            acc = 0
            for x in items:
                got = yield x + acc
                if got is not None:
                    acc += got
        return g()

    def same(self):
        return self.cell


class VManager(bm.SyncManager):
    pass


class WouldBlockForever(Exception):
    """The referent was asked to wait without a time limit for something
    that is not available: in a sequential history that call would never
    return (the harness only issues such calls when they cannot block, so
    this means a proxy turned a bounded call into an unbounded one)."""


def _nohang(factory):
    class NoHang:
        def __init__(self, *a, **k):
            self._o = factory(*a, **k)

        def acquire(self, *a, **k):
            blocking = a[0] if a else k.get('blocking', True)
            timed = len(a) > 1 or 'timeout' in k
            if blocking is True and not timed:
                if self._o.acquire(False):
                    return True
                raise WouldBlockForever('acquire() without time limit on an '
                                        'unavailable %s' % factory.__name__)
            return self._o.acquire(*a, **k)

        def __enter__(self):
            return self.acquire()

        def __exit__(self, *a):
            self._o.release()

        def __getattr__(self, name):
            return getattr(self._o, name)
    NoHang.__name__ = NoHang.__qualname__ = 'NoHang_' + factory.__name__
    return NoHang


for _n, _f, _p in (('Lock', threading.Lock, bm.AcquirerProxy),
                   ('RLock', threading.RLock, bm.AcquirerProxy),
                   ('Semaphore', threading.Semaphore, bm.AcquirerProxy),
                   ('BoundedSemaphore', threading.BoundedSemaphore,
                    bm.AcquirerProxy),
                   ('Condition', threading.Condition, bm.ConditionProxy)):
    VManager.register(_n, _nohang(_f), _p)

VManager.register('Src', Src, method_to_typeid={
    'it': 'Iterator', 'gen': 'Iterator', 'same': 'Cell'})
VManager.register('Cell', create_method=False)


class Stuck(Exception):
    pass


def _unexpected(exc):
    """An exception the harness did not anticipate while driving billiard.
    Machinery faults stay harness errors (exit 2); anything else means the
    tree under test did something the unchanged tree never does."""
    if isinstance(exc, vs.HarnessError):
        raise exc
    import traceback
    tb = traceback.extract_tb(exc.__traceback__)
    where = '; '.join('%s:%d %s' % (f.filename.rsplit('/', 1)[-1], f.lineno,
                                    f.name) for f in tb[-3:])
    return '%s%s at %s' % (type(exc).__name__, _short(exc.args, 200), where)


class Env:
    """One execution: world, scheduler, the real server and its accepter."""

    def __init__(self, prefix=(), max_steps=200000):
        self.choices = Guided(prefix)            # the explored phase only
        self.sched = vs.Scheduler(vs.Choices(), timer_deviation=False,
                                  max_steps=max_steps)
        self.log = []
        self.held = {}
        self.actors = {}
        self.monitor = None
        self._pids = itertools.count(7000)

    def __enter__(self):
        self._w = vos.fresh(self.sched)
        self._w.__enter__()
        _Net.listeners.clear()
        del _Net.conns[:]
        dict.clear(bm.BaseProxy._address_to_local)
        self.mgr = VManager(address=None, authkey=KEY, serializer='inproc')
        self.server = self.mgr.get_server()
        # serve_forever() creates this before starting the accepter
        self.server.stop_event = bm.threading.Event()
        self.mgr._address = self.server.address   # as start() does
        _Net.accepter_tid = self.sched.spawn(
            self.server.accepter, 'accepter', pid=SERVER_PID,
            daemon=True).tid
        return self

    def __exit__(self, *a):
        self.sched.linepoints = False
        butil._finalizer_registry.clear()
        for c in _Net.conns:
            c._handle = None
        self.held.clear()
        self.actors.clear()
        self._w.__exit__(*a)
        vctx.reset_billiard_globals()
        _Net.listeners.clear()
        del _Net.conns[:]
        dict.clear(bm.BaseProxy._address_to_local)

    def ev(self, *a):
        self.log.append(a)

    # -- actors: one persistent vthread per virtual client process / thread
    def actor(self, name, pid=None, main=True):
        a = self.actors.get(name)
        if a is None:
            a = self.actors[name] = Actor(
                self, name, next(self._pids) if pid is None else pid, main)
        return a

    def wait(self, *jobs):
        mon = self.monitor

        def until():
            if mon is not None:
                mon()
            return all(j.out is not None for j in jobs)
        st = self.sched.run(until=until)
        if st != 'until':
            raise Stuck('%s: %r' % (st, self.sched.describe()))

    def server_ids(self):
        return set(self.server.id_to_obj) - {'0'}


class Job:
    def __init__(self, fn):
        self.fn, self.out = fn, None

    def run(self):
        try:
            self.out = ('ok', self.fn())
        except Exception as e:
            self.out = ('exc', type(e), e.args)
            e = None

    def value(self):
        if self.out[0] == 'exc':
            raise ActorError(self.out[1].__name__, _short(self.out[2]))
        return self.out[1]


class ActorError(Exception):
    pass


class Actor:
    def __init__(self, env, name, pid, main):
        self.env, self.name, self.pid, self.main = env, name, pid, main
        self.jobs = collections.deque()
        self.vt = env.sched.spawn(self._loop, name, pid=pid)

    def _loop(self):
        current().local['is_main'] = self.main
        while True:
            self.env.sched.point('actor.idle', self.name,
                                 lambda: bool(self.jobs))
            job = self.jobs.popleft()
            if job is None:
                return
            job.run()
            job = None

    def post(self, fn):
        job = Job(fn)
        self.jobs.append(job)
        return job

    def call(self, fn):
        job = self.post(fn)
        self.env.wait(job)
        return job.value()

    def try_call(self, fn):
        job = self.post(fn)
        self.env.wait(job)
        return job.out


def _short(x, n=300):
    s = repr(x)
    return s if len(s) <= n else s[:n] + '...'


_VIEWS = (type({}.keys()), type({}.values()), type({}.items()))


def _norm(v, o):
    if v is o:
        return ('SELF',)
    if isinstance(v, _VIEWS):
        return list(v)          # a proxy returns the copy a view pickles to
    if isinstance(v, array.array):
        return ('array', v.typecode, v.tolist())
    return v


def _call(fn, o):
    try:
        v = fn(o)
    except Exception as e:
        r = ('exc', type(e), e.args)
        e = None
        return r
    return ('ok', _norm(v, o))


def _same(a, b):
    if a[0] != b[0]:
        return False
    if a[0] == 'exc':
        return a[1] is b[1] and a[2] == b[2]
    return type(a[1]) is type(b[1]) and a[1] == b[1]


def _show(r):
    if r[0] == 'exc':
        return '%s%s' % (r[1].__name__, _short(r[2], 160))
    return _short(r[1], 160)


def _is_f10(spec, label, a):
    """The known defect: IteratorProxy._exposed typo -> '__next__' is not an
    exposed method of an 'Iterator' referent."""
    if spec.name != 'Iterator' or label not in ('next', 'drain'):
        return False
    if a[0] != 'exc' or a[1] is not bm.RemoteError:
        return False
    text = str(a[2][0]) if a[2] else ''
    return "'__next__'" in text and ('not in exposed' in text or
                                     'KeyError' in text)


# ------------------------------------------------------- (a) equivalence
class Spec:
    def __init__(self, name, make, local, ops, observe=None):
        self.name, self.make, self.local = name, make, local
        self.ops, self.observe = ops, observe


def _with(o):
    with o as r:
        return ('in', r)


def _sem_value(o):
    n = 0
    while n < 8 and o.acquire(False):
        n += 1
    for _ in range(n):
        o.release()
    return n


class Box:
    """The Iterator type under test: a source plus the iterator last made."""

    def __init__(self, src):
        self.src, self.cur, self.kind = src, None, None


def _mk_iter(kind):
    def f(b):
        b.cur = getattr(b.src, kind)()
        b.kind = kind
        if isinstance(b.cur, bm.BaseProxy):
            return 'ITER' if isinstance(b.cur, bm.IteratorProxy) else \
                type(b.cur).__name__
        return 'ITER' if hasattr(b.cur, '__next__') else type(b.cur).__name__
    return f


def _setattr(name, v):
    def f(o):
        return setattr(o, name, v)
    return f


def _delattr(name):
    def f(o):
        return delattr(o, name)
    return f


def _setitem(k, v):
    return lambda o: o.__setitem__(k, v)


def _delitem(k):
    return lambda o: o.__delitem__(k)


def _has_cur(b):
    return b.cur is not None


def _is_gen(b):
    return b.kind == 'gen'


def specs():
    S = collections.OrderedDict()

    def add(*a, **kw):
        s = Spec(*a, **kw)
        S[s.name] = s
    add('list', lambda m: m.list(), lambda: [], [
        ('append0', lambda o: o.append(0), None),
        ('append1', lambda o: o.append(1), None),
        ('pop', lambda o: o.pop(), None),
        ('get0', lambda o: o[0], None),
        ('set0=2', _setitem(0, 2), None),
        ('remove1', lambda o: o.remove(1), None),
        ('iadd[2]', lambda o: operator.iadd(o, [2]), None),
        ('imul2', lambda o: operator.imul(o, 2), None),
        ('len', len, None),
        ('index2', lambda o: o.index(2), None),
    ], observe=lambda o: o[:])
    add('list/b', lambda m: m.list([1]), lambda: [1], [
        ('insert0,0', lambda o: o.insert(0, 0), None),
        ('extend[0,2]', lambda o: o.extend([0, 2]), None),
        ('del0', _delitem(0), None),
        ('reverse', lambda o: o.reverse(), None),
        ('sort', lambda o: o.sort(), None),
        ('2in', lambda o: 2 in o, None),
        ('count0', lambda o: o.count(0), None),
        ('mul2', lambda o: o * 2, None),
        ('pop0', lambda o: o.pop(0), None),
        ('get[0:2]', lambda o: o[0:2], None),
    ], observe=lambda o: o[:])
    add('dict', lambda m: m.dict(), dict, [
        ('[0]=1', _setitem(0, 1), None),
        ('[1]=2', _setitem(1, 2), None),
        ('[0]', lambda o: o[0], None),
        ('del[0]', _delitem(0), None),
        ('pop1', lambda o: o.pop(1), None),
        ('get2', lambda o: o.get(2), None),
        ('0in', lambda o: 0 in o, None),
        ('len', len, None),
        ('setdefault2,0', lambda o: o.setdefault(2, 0), None),
        ('popitem', lambda o: o.popitem(), None),
    ], observe=lambda o: o.copy())
    add('dict/b', lambda m: m.dict({1: 1}), lambda: {1: 1}, [
        ('update{0:2}', lambda o: o.update({0: 2}), None),
        ('update[(2,1)]', lambda o: o.update([(2, 1)]), None),
        ('keys', lambda o: o.keys(), None),
        ('values', lambda o: o.values(), None),
        ('items', lambda o: o.items(), None),
        ('clear', lambda o: o.clear(), None),
        ('get0,d', lambda o: o.get(0, 'd'), None),
        ('pop1,None', lambda o: o.pop(1, None), None),
        ('[1]', lambda o: o[1], None),
    ], observe=lambda o: o.copy())
    add('Namespace', lambda m: m.Namespace(), bm.Namespace, [
        ('x=0', _setattr('x', 0), None),
        ('x=1', _setattr('x', 1), None),
        ('y=2', _setattr('y', 2), None),
        ('x', lambda o: o.x, None),
        ('y', lambda o: o.y, None),
        ('del x', _delattr('x'), None),
        ('hasattr y', lambda o: hasattr(o, 'y'), None),
    ], observe=lambda o: str(o) if isinstance(o, bm.BaseProxy) else repr(o))
    add('Value', lambda m: m.Value('i', 0), lambda: bm.Value('i', 0), [
        ('get', lambda o: o.get(), None),
        ('set0', lambda o: o.set(0), None),
        ('set1', lambda o: o.set(1), None),
        ('set2', lambda o: o.set(2), None),
        ('.value', lambda o: o.value, None),
        ('.value=1', _setattr('value', 1), None),
    ], observe=lambda o: str(o) if isinstance(o, bm.BaseProxy) else repr(o))
    add('Array', lambda m: m.Array('i', [0, 1, 2]),
        lambda: array.array('i', [0, 1, 2]), [
        ('[0]', lambda o: o[0], None),
        ('[3]', lambda o: o[3], None),
        ('[0]=1', _setitem(0, 1), None),
        ('[1]=2', _setitem(1, 2), None),
        ('[3]=0', _setitem(3, 0), None),
        ("[0]='x'", _setitem(0, 'x'), None),
        ('[0]=2**40', _setitem(0, 2 ** 40), None),
        ('len', len, None),
        ('[0:2]', lambda o: o[0:2], None),
    ], observe=lambda o: o[:])

    def unlocked(lk):
        return not lk.locked()

    def positive(sem):
        return sem._value > 0
    acq = [
        ('acquire(False)', lambda o: o.acquire(False), None),
        ('acquire(True,0)', lambda o: o.acquire(True, 0), None),
        ('release', lambda o: o.release(), None),
        ('acquire(False,1)', lambda o: o.acquire(False, 1), None),
    ]
    add('Lock', lambda m: m.Lock(), threading.Lock, acq + [
        ('acquire()', lambda o: o.acquire(), unlocked),
        ('with', _with, unlocked)], observe=_sem_value)
    add('RLock', lambda m: m.RLock(), threading.RLock, acq + [
        ('acquire()', lambda o: o.acquire(), None),
        ('with', _with, None)])
    add('Semaphore', lambda m: m.Semaphore(1),
        lambda: threading.Semaphore(1), acq + [
        ('acquire()', lambda o: o.acquire(), positive),
        ('with', _with, positive)], observe=_sem_value)
    add('BoundedSemaphore', lambda m: m.BoundedSemaphore(2),
        lambda: threading.BoundedSemaphore(2), acq + [
        ('acquire()', lambda o: o.acquire(), positive),
        ('with', _with, positive)], observe=_sem_value)
    add('Event', lambda m: m.Event(), threading.Event, [
        ('is_set', lambda o: o.is_set(), None),
        ('set', lambda o: o.set(), None),
        ('clear', lambda o: o.clear(), None),
        ('wait(0)', lambda o: o.wait(0), None),
        ('wait()', lambda o: o.wait(), lambda e: e.is_set()),
    ], observe=lambda o: o.is_set())
    add('Condition', lambda m: m.Condition(), threading.Condition, [
        ('acquire(False)', lambda o: o.acquire(False), None),
        ('acquire()', lambda o: o.acquire(), None),
        ('release', lambda o: o.release(), None),
        ('notify', lambda o: o.notify(), None),
        ('notify_all', lambda o: o.notify_all(), None),
        ('wait(0)', lambda o: o.wait(0), None),
        ('with', _with, None),
        ('wait_for(true)', lambda o: o.wait_for(lambda: 1, 0), None),
    ])
    add('Barrier', lambda m: m.Barrier(1), lambda: threading.Barrier(1), [
        ('wait', lambda o: o.wait(), None),
        ('abort', lambda o: o.abort(), None),
        ('reset', lambda o: o.reset(), None),
        ('parties', lambda o: o.parties, None),
        ('n_waiting', lambda o: o.n_waiting, None),
        ('broken', lambda o: o.broken, None),
    ])
    add('Queue', lambda m: m.Queue(2), lambda: queue.Queue(2), [
        ('put_nowait0', lambda o: o.put_nowait(0), None),
        ('put_nowait1', lambda o: o.put_nowait(1), None),
        ('get_nowait', lambda o: o.get_nowait(), None),
        ('qsize', lambda o: o.qsize(), None),
        ('full', lambda o: o.full(), None),
        ('put2', lambda o: o.put(2), lambda q: not q.full()),
        ('get', lambda o: o.get(), lambda q: not q.empty()),
        ('get(True,0)', lambda o: o.get(True, 0), None),
        ('put(2,True,0)', lambda o: o.put(2, True, 0), None),
    ], observe=lambda o: (o.qsize(), o.empty(), o.full()))
    add('JoinableQueue', lambda m: m.JoinableQueue(2),
        lambda: queue.Queue(2), [
        ('put_nowait0', lambda o: o.put_nowait(0), None),
        ('put_nowait1', lambda o: o.put_nowait(1), None),
        ('get_nowait', lambda o: o.get_nowait(), None),
        ('task_done', lambda o: o.task_done(), None),
        ('join', lambda o: o.join(), lambda q: q.unfinished_tasks == 0),
        ('qsize', lambda o: o.qsize(), None),
    ], observe=lambda o: (o.qsize(), o.empty(), o.full()))
    add('Iterator', lambda m: Box(m.Src()), lambda: Box(Src()), [
        ('push0', lambda b: b.src.push(0), None),
        ('push1', lambda b: b.src.push(1), None),
        ('it', _mk_iter('it'), None),
        ('gen', _mk_iter('gen'), None),
        ('next', lambda b: next(b.cur), _has_cur),
        ('drain', lambda b: list(b.cur), _has_cur),
        ('send2', lambda b: b.cur.send(2), _is_gen),
        ('throw', lambda b: b.cur.throw(ValueError('boom')), _is_gen),
        ('close', lambda b: b.cur.close(), _is_gen),
    ], observe=lambda b: b.src.peek())
    return S


_SPECS = None


def spec_of(name):
    global _SPECS
    if _SPECS is None:
        _SPECS = specs()
    return _SPECS[name]


def run_seq(typ, seq):
    """One op sequence through a proxy and on the local object.  Returns
    (outcome, violation, finding, log)."""
    try:
        return _run_seq(typ, seq)
    except Exception as exc:
        return (('error',), 'type %s, ops %r: driving the sequence failed: %s'
                % (typ, [spec_of(typ).ops[i][0] for i in seq],
                   _unexpected(exc)), None, [])


def _run_seq(typ, seq):
    spec = spec_of(typ)
    out = {'res': [], 'viol': None, 'finding': None}
    with Env() as env:
        def client():
            current().local['is_main'] = True
            env.mgr.connect()
            p = spec.make(env.mgr)
            loc = spec.local()
            for step, idx in enumerate(seq):
                label, fn, pre = spec.ops[idx]
                if pre is not None and not pre(loc):
                    out['res'].append('skip')
                    env.ev(step, label, 'skipped (would block)')
                    continue
                a, b = _call(fn, p), _call(fn, loc)
                env.ev(step, label, 'proxy', _show(a), 'local', _show(b))
                if not _same(a, b):
                    if _is_f10(spec, label, a):
                        out['finding'] = (
                            'step %d %s: proxy raised RemoteError (%s), local '
                            'object gave %s' % (
                                step, label,
                                str(a[2][0]).strip().splitlines()[-1],
                                _show(b)))
                        out['res'].append('F10')
                        return
                    out['viol'] = (
                        'type %s, ops %r, step %d (%s): through the proxy %s, '
                        'on the local object %s' % (
                            typ, [spec.ops[i][0] for i in seq], step, label,
                            _show(a), _show(b)))
                    return
                out['res'].append(_show(a))
                if spec.observe is not None:
                    oa, ob = _call(spec.observe, p), _call(spec.observe, loc)
                    env.ev(step, 'observe', 'proxy', _show(oa), 'local',
                           _show(ob))
                    if not _same(oa, ob):
                        out['viol'] = (
                            'type %s, ops %r, after step %d (%s): state seen '
                            'through the proxy %s, local object %s' % (
                                typ, [spec.ops[i][0] for i in seq], step,
                                label, _show(oa), _show(ob)))
                        return
                    out['res'].append(_show(oa))
        vt = env.sched.spawn(client, 'client', pid=P_PID)
        st = env.sched.run()
        if out['viol'] is None:
            if vt.exc is not None:
                out['viol'] = 'type %s, ops %r: harness client failed: %s%s' % (
                    typ, [spec.ops[i][0] for i in seq],
                    type(vt.exc).__name__, _short(vt.exc.args))
            elif st != 'done':
                out['viol'] = ('type %s, ops %r: a call through the proxy '
                               'never returned (%s): %r' % (
                                   typ, [spec.ops[i][0] for i in seq], st,
                                   env.sched.describe()))
        log = env.log
    return tuple(out['res']), out['viol'], out['finding'], log


def depth_of(typ, tier):
    n = len(spec_of(typ).ops)
    if tier == 'thorough':
        return 5 if n <= 8 else 4
    return 4 if n <= 8 else 3


def _task_a(arg):
    typ, depth, head = arg
    spec = spec_of(typ)
    n = len(spec.ops)
    res = dict(part='a', typ=typ, evals=0, steps=0, outcomes=set(),
               viols=[], nviol=0, f10=0, f10_first=None, samples=[])
    pick = (7 * n) % max(1, n ** (depth - len(head)))
    for k, tail in enumerate(itertools.product(range(n),
                                               repeat=depth - len(head))):
        seq = tuple(head) + tail
        outcome, viol, finding, _ = run_seq(typ, seq)
        res['evals'] += 1
        res['steps'] += len(seq)
        res['outcomes'].add(hashlib.sha1(
            repr((typ, outcome)).encode()).hexdigest()[:12])
        if viol:
            res['nviol'] += 1
            if len(res['viols']) < MAX_REPORT:
                res['viols'].append((viol, dict(part='a', typ=typ,
                                                seq=list(seq))))
        if finding:
            res['f10'] += 1
            if res['f10_first'] is None:
                res['f10_first'] = (finding, dict(part='a', typ=typ,
                                                  seq=list(seq)))
        if k == pick:
            res['samples'].append(
                {'type': typ, 'ops': [spec.ops[i][0] for i in seq],
                 'results': list(outcome)})
        if k % 200 == 199:
            gc.collect()
    gc.collect()
    return res


# ------------------------------------------------------------ (b) lifetime
CAPS = {'quick': dict(depth=6, proxies=4, creates=3),
        'thorough': dict(depth=8, proxies=5, creates=3)}


def _fork_copy(p, env):
    """What a forked child holds for the parent's proxy ``p`` once
    ``Process._bootstrap`` has run: a memory copy of the object, the inherited
    finalizers dropped (``_finalizer_registry.clear()``), thread-local storage
    and the per-process id set emptied (their registered after-fork hooks),
    then the real ``BaseProxy._after_fork``."""
    q = object.__new__(type(p))
    q.__dict__.update(p.__dict__)
    q.__dict__.pop('_close', None)
    a2l = bm.BaseProxy._address_to_local
    ent = a2l.get(p._token.address)
    if ent is None:
        ent = (butil.ForkAwareLocal(), bm.ProcessLocalSet())
        a2l[p._token.address] = ent
    q.__dict__['_tls'], q.__dict__['_idset'] = ent
    q._after_fork()
    return q


class Life:
    """Harness-side bookkeeping for part (b): which proxies are alive."""

    def __init__(self, env, caps):
        self.env, self.caps = env, caps
        self.refs = []          # dict(id, marker)
        self.prox = []          # dict(key, ref, owner, kind)
        self.nkeys = itertools.count()
        self.nforks = itertools.count(1)
        self.P = env.actor('P', P_PID)
        self.P.call(env.mgr.connect)

    # ---- events
    def enabled(self):
        ev = []
        live = set(p['ref'] for p in self.prox)
        if len(live) < 2 and len(self.refs) < self.caps['creates'] and \
                len(self.prox) < self.caps['proxies']:
            ev.append(('create',))
        for i in range(len(self.prox)):
            if len(self.prox) < self.caps['proxies']:
                ev.append(('copy', i, 'same'))
                ev.append(('copy', i, 'other'))
                ev.append(('fork', i))
            ev.append(('child', i))
            ev.append(('drop', i))
        return ev

    def _actor(self, owner):
        if owner == 'P':
            return self.P
        if owner == 'Q':
            return self.env.actor('Q', Q_PID)
        return self.env.actor(owner)

    def _add(self, ref, owner, kind):
        key = 'p%d' % next(self.nkeys)
        self.prox.append(dict(key=key, ref=ref, owner=owner, kind=kind))
        return key

    def apply(self, ev):
        """Performs the event; yields control to ``check`` through the
        returned list of sub-steps already executed (each followed by the
        invariant)."""
        env, held = self.env, self.env.held
        kind = ev[0]
        if kind == 'create':
            r = len(self.refs)
            key = self._add(r, 'P', 'M')

            def create():
                p = env.mgr.list()
                p.append(100 + r)
                held[key] = p
                return p._token.id, p._token
            ident, token = self.P.call(create)
            self.refs.append(dict(id=ident, marker=100 + r, token=token))
            return self.check('create r%d' % r)
        src = self.prox[ev[1]]
        owner = self._actor(src['owner'])
        if kind == 'drop':
            def drop():
                held.pop(src['key'])
                gc.collect()
            self.prox.pop(ev[1])
            owner.call(drop)
            return self.check('drop %s' % src['key'])
        if kind == 'fork':
            name = 'F%d' % next(self.nforks)
            key = self._add(src['ref'], name, 'F')
            child = self._actor(name)

            def fork():
                held[key] = _fork_copy(held[src['key']], env)
            child.call(fork)
            return self.check('fork %s -> %s' % (src['key'], name))
        data = owner.call(lambda: vctx.dumps_for_child(held[src['key']]))
        if kind == 'copy':
            tgt = src['owner'] if ev[2] == 'same' else (
                'Q' if src['owner'] != 'Q' else 'P')
            key = self._add(src['ref'], tgt, 'R')

            def load():
                held[key] = pickle.loads(data)
            self._actor(tgt).call(load)
            return self.check('copy %s -> %s in %s' % (src['key'], key, tgt))
        if kind == 'child':
            name = 'C%d' % next(self.nforks)
            key = self._add(src['ref'], name, 'R')
            child = self._actor(name)

            def load():
                held[key] = pickle.loads(data)
            child.call(load)
            msg = self.check('child %s loads %s' % (name, src['key']))
            if msg:
                return msg

            def drop():
                held.pop(key)
                gc.collect()
            self.prox.pop()
            child.call(drop)
            child.post(None)
            return self.check('child %s drops' % name)
        raise ValueError(ev)

    # ---- the invariant
    def check(self, what):
        env, held = self.env, self.env.held
        srv = env.server
        live = sorted(set(p['ref'] for p in self.prox))
        want = set(self.refs[r]['id'] for r in live)
        have = env.server_ids()
        env.ev(what, 'live referents', live, 'server objects', len(have),
               'refcounts', sorted(srv.id_to_refcount.values()))
        if have != want:
            lost = [r for r in live if self.refs[r]['id'] not in have]
            if lost:
                return ('after %s: referent r%d still has a live proxy but is '
                        'gone from the server' % (what, lost[0]))
            return ('after %s: the server keeps %d object(s) although only '
                    '%d referent(s) have a live proxy' % (
                        what, len(have), len(want)))
        try:
            n = self.P.call(env.mgr._number_of_objects)
        except ActorError as exc:
            return 'after %s: number_of_objects failed: %s' % (what, exc)
        if n != len(live):
            return 'after %s: number_of_objects() = %r, %d referents have a ' \
                'live proxy' % (what, n, len(live))
        for p in self.prox:
            out = self._actor(p['owner']).try_call(
                lambda k=p['key']: held[k][:])
            exp = [self.refs[p['ref']]['marker']]
            if out[0] != 'ok' or out[1] != exp:
                return ('after %s: live proxy %s (referent r%d, process %s) '
                        'does not answer: %s, expected %r' % (
                            what, p['key'], p['ref'], p['owner'],
                            _show(out), exp))
        for r, ref in enumerate(self.refs):
            if r in live or ref['id'] in want:
                continue            # (a new referent may reuse the address)

            def probe(tok=ref['token']):
                q = bm.ListProxy(tok, 'inproc', authkey=KEY, incref=False)
                return q.__len__()

            def probe2(ident=ref['id']):
                c = VClient(env.server.address, authkey=KEY)
                try:
                    return bm.dispatch(c, None, 'incref', (ident,))
                finally:
                    c.close()
            for pr in (probe, probe2):
                out = self.P.try_call(pr)
                if out[0] != 'exc':
                    return ('after %s: a request for the id of disposed '
                            'referent r%d was served (%s)' % (
                                what, r, _show(out)))
            if env.server_ids() != want:
                return ('after %s: a refused request changed the object '
                        'table' % what)
        return None

    def canon(self):
        env = self.env
        raw = {}
        for (pid, addr), (tls, idset) in dict.items(
                bm.BaseProxy._address_to_local):
            raw[pid] = (tls, idset)
        sig = []
        for r, ref in enumerate(self.refs):
            ps = tuple(sorted((p['owner'][0], p['kind'])
                              for p in self.prox if p['ref'] == r))
            ins = tuple(
                pid in raw and ref['id'] in raw[pid][1]
                for pid in (P_PID, Q_PID))
            sig.append((ps, ins if ps else ()))
        conn = []
        for name, pid in (('P', P_PID), ('Q', Q_PID)):
            a = env.actors.get(name)
            has = False
            if a is not None and pid in raw:
                d = object.__getattribute__(raw[pid][0], '_d')
                has = 'connection' in d.get(('vt', a.vt.tid), {})
            conn.append(has)
        return repr((sorted(sig), conn, len(self.refs)))


def run_hist(hist, tier):
    caps = CAPS[tier]
    with Env() as env:
        viol = None
        canon = events = None
        try:
            life = Life(env, caps)
            viol = life.check('start')
            for ev in hist:
                if viol:
                    break
                viol = life.apply(tuple(ev))
            if not viol:
                canon = life.canon()
                events = life.enabled()
        except (Stuck, ActorError) as exc:
            viol = '%s: %s' % (type(exc).__name__, exc)
        except Exception as exc:
            viol = 'driving the history failed: ' + _unexpected(exc)
        if viol:
            viol = 'history %r: %s' % ([list(e) for e in hist], viol)
        log = env.log
    gc.collect()
    return dict(viol=viol, canon=canon, events=events, log=log)


def _task_b(arg):
    hist, tier = arg
    r = run_hist(hist, tier)
    r.pop('log')
    return r


# --------------------------------------------------------- (c) concurrency
LOPS = {
    'append': lambda o, v: o.append(v),
    'pop': lambda o: o.pop(),
    'len': lambda o: len(o),
    'insert0': lambda o, v: o.insert(0, v),
    'iadd': lambda o, v: _norm(operator.iadd(o, [v]), o),
    'setitem': lambda o, k, v: o.__setitem__(k, v),
    'popk': lambda o, k: o.pop(k),
    'getk': lambda o, k: o.get(k),
    'setdefault': lambda o, k, v: o.setdefault(k, v),
    'vset': lambda o, v: o.set(v),
    'vget': lambda o: o.get(),
}
CTYPES = {
    'list': dict(make=lambda m: m.list([0]), local=lambda: [0],
                 observe=lambda o: o[:],
                 ops=[('append', 1), ('pop',), ('len',), ('insert0', 2)]),
    'dict': dict(make=lambda m: m.dict({0: 0}), local=lambda: {0: 0},
                 observe=lambda o: o.copy(),
                 ops=[('setitem', 0, 1), ('popk', 0), ('getk', 0),
                      ('setdefault', 0, 2)]),
    'Value': dict(make=lambda m: m.Value('i', 0),
                  local=lambda: bm.Value('i', 0),
                  observe=lambda o: o.get(),
                  ops=[('vset', 1), ('vset', 2), ('vget',)]),
}


def _do(o, op):
    return _call(lambda x: LOPS[op[0]](x, *op[1:]), o)


def _plain(r):
    if r[0] == 'exc':
        return ('exc', r[1].__name__, r[2])
    return (r[0], r[1])


def _interleavings(na, nb):
    for pos in itertools.combinations(range(na + nb), na):
        yield [0 if i in pos else 1 for i in range(na + nb)]


def _linearizable(typ, seqs, observed):
    ct = CTYPES[typ]
    seen = []
    for order in _interleavings(len(seqs[0]), len(seqs[1])):
        loc = ct['local']()
        res = ([], [])
        nxt = [0, 0]
        for who in order:
            res[who].append(_plain(_do(loc, seqs[who][nxt[who]])))
            nxt[who] += 1
        got = (tuple(res[0]), tuple(res[1]),
               _plain(_call(ct['observe'], loc)))
        if got == observed:
            return True, None
        seen.append(got)
    return False, seen


_LINE_CODES = None


def _lines_on(env):
    global _LINE_CODES
    if _LINE_CODES is None:
        S = bm.Server
        # incref / decref are short read-modify-write functions: every
        # bytecode instruction is a scheduling point there (a one-line
        # ``d[k] -= 1`` cannot be split by LINE events)
        _LINE_CODES = linepoints.codes_of(S.serve_client, S.create)
        linepoints.enable(linepoints.codes_of(S.incref, S.decref),
                          instructions=True)
        linepoints.enable(_LINE_CODES)
    env.sched.linepoints = True


def _monitor(env, must_live, bad):
    srv = env.server

    def mon():
        if bad:
            return
        for k, v in list(srv.id_to_refcount.items()):
            if v < 0:
                bad.append('reference count of a shared object is %d' % v)
        for ident in must_live:
            if ident not in srv.id_to_obj:
                bad.append('a referent that still has a live proxy was '
                           'disposed of by the server')
    return mon


def _explored_phase(env, jobs, lines=True):
    """Run the posted jobs under the explored choice sequence, with line-level
    preemption inside Server.serve_client/create/incref/decref unless
    ``lines`` is false (then only pipe / lock / queue operations are
    scheduling points)."""
    env.sched.choices = env.choices
    env.sched.last = None
    if lines:
        _lines_on(env)
    try:
        env.wait(*jobs)
    finally:
        env.sched.linepoints = False
        env.sched.choices = vs.Choices()


def _run_lin(cfg, prefix):
    typ, seqs, mode, warm = cfg['type'], cfg['seqs'], cfg['mode'], cfg['warm']
    ct = CTYPES[typ]
    viol = None
    outcome = None
    with Env(prefix) as env:
        held = env.held
        try:
            A = env.actor('A', P_PID)
            B = env.actor('B', P_PID if mode == 'threads' else Q_PID,
                          main=(mode != 'threads'))

            def create():
                env.mgr.connect()
                held['a'] = ct['make'](env.mgr)
                return held['a']._token.id
            ident = A.call(create)
            if mode == 'threads':
                held['b'] = held['a']
            else:
                data = A.call(lambda: vctx.dumps_for_child(held['a']))

                def load():
                    held['b'] = pickle.loads(data)
                B.call(load)
            if warm:
                A.call(lambda: ct['observe'](held['a']))
                B.call(lambda: ct['observe'](held['b']))
            bad = []
            env.monitor = _monitor(env, [ident], bad)
            ja = A.post(lambda: tuple(_plain(_do(held['a'], op))
                                      for op in seqs[0]))
            jb = B.post(lambda: tuple(_plain(_do(held['b'], op))
                                      for op in seqs[1]))
            _explored_phase(env, (ja, jb), cfg.get('lines', True))
            env.monitor = None
            final = A.call(
                lambda: _plain(_call(ct['observe'], held['a'])))
            observed = (ja.value(), jb.value(), final)
            outcome = observed
            env.ev('A', seqs[0], observed[0], 'B', seqs[1], observed[1],
                   'final', final)
            if bad:
                viol = bad[0]
            else:
                ok, seen = _linearizable(typ, seqs, observed)
                if not ok:
                    viol = ('results %r / %r and final state %r of concurrent '
                            'calls A=%r B=%r on one %s equal no sequential '
                            'order; sequential orders give %r' % (
                                observed[0], observed[1], final, seqs[0],
                                seqs[1], typ, seen))
        except (Stuck, ActorError) as exc:
            viol = '%s: %s' % (type(exc).__name__, exc)
            outcome = ('error', type(exc).__name__)
        except Exception as exc:
            viol = 'driving the scenario failed: ' + _unexpected(exc)
            outcome = ('error', type(exc).__name__)
        log = env.log
        st = env.sched.status
    return explore.Execution(env.choices.decisions, outcome=outcome,
                             violation=viol, log=log, status=st)


def _run_life(cfg, prefix):
    """Concurrent incref / decref / create on one id."""
    sc = cfg['scenario']
    viol = None
    outcome = None
    with Env(prefix) as env:
        held = env.held
        srv = env.server
        try:
            threads = sc in ('create||create',)
            A = env.actor('A', P_PID)
            B = env.actor('B', P_PID if threads else Q_PID, main=not threads)
            A.call(env.mgr.connect)
            must = []
            def put(k, make):
                return lambda: held.__setitem__(k, make())

            def drop(k):
                return lambda: (held.pop(k), None)[1]

            def copy(k, k2):
                return put(k2, lambda: pickle.loads(
                    vctx.dumps_for_child(held[k])))
            if sc in ('drop||copy', 'drop||drop', 'copy||copy', 'call||drop'):
                A.call(put('A.l', lambda: env.mgr.list([5])))
                ident = held['A.l']._token.id
                data = A.call(lambda: vctx.dumps_for_child(held['A.l']))
                B.call(put('B.l', lambda: pickle.loads(data)))
                A.call(lambda: held['A.l'][:])
                B.call(lambda: held['B.l'][:])
                if sc == 'drop||copy':
                    fa, fb, must, alive = drop('A.l'), copy('B.l', 'B.l2'), \
                        [ident], ['B.l', 'B.l2']
                elif sc == 'drop||drop':
                    fa, fb, must, alive = drop('A.l'), drop('B.l'), [], []
                elif sc == 'copy||copy':
                    fa, fb, must, alive = \
                        copy('A.l', 'A.l2'), copy('B.l', 'B.l2'), [ident], \
                        ['A.l', 'A.l2', 'B.l', 'B.l2']
                else:
                    fa, fb, must, alive = \
                        (lambda: held['A.l'].append(6)), drop('B.l'), \
                        [ident], ['A.l']
                want_objs = 1 if alive else 0
                answer = (lambda p: p[:])
                expect_answer = [5, 6] if sc == 'call||drop' else [5]
            elif sc == 'create||drop':
                # one id (the Cell inside a Src) is created again through a
                # method mapped with method_to_typeid while its other proxy
                # is released
                A.call(put('A.src', lambda: env.mgr.Src()))
                sid = held['A.src']._token.id
                A.call(put('A.c0', lambda: held['A.src'].same()))
                cdata = A.call(lambda: vctx.dumps_for_child(held['A.c0']))
                B.call(put('B.c', lambda: pickle.loads(cdata)))
                A.call(drop('A.c0'))
                B.call(lambda: held['B.c'].get())
                fa = put('A.c', lambda: held['A.src'].same())
                fb = drop('B.c')
                must = [sid]
                alive = ['A.c']
                want_objs = 2
                answer = (lambda p: p.get())
                expect_answer = 7
            elif sc == 'create||create':
                fa = put('A.l', lambda: env.mgr.list([5]))
                fb = put('B.l', lambda: env.mgr.list([5]))
                alive = ['A.l', 'B.l']
                want_objs = 2
                answer = (lambda p: p[:])
                expect_answer = [5]
            else:
                raise ValueError(sc)
            bad = []
            env.monitor = _monitor(env, must, bad)
            ja, jb = A.post(fa), B.post(fb)
            _explored_phase(env, (ja, jb), cfg.get('lines', True))
            env.monitor = None
            ra, rb = ja.out, jb.out
            n = len(env.server_ids())
            outcome = (sc, ra[0], rb[0], n,
                       tuple(sorted(srv.id_to_refcount.values())))
            env.ev(sc, 'A', _show(ra), 'B', _show(rb), 'objects', n,
                   'refcounts', sorted(srv.id_to_refcount.values()))
            if bad:
                viol = bad[0]
            elif ra[0] != 'ok' or rb[0] != 'ok':
                viol = 'a client operation failed: A %s, B %s' % (
                    _show(ra), _show(rb))
            elif n != want_objs:
                viol = ('%d shared object(s) on the server, %d referent(s) '
                        'have a live proxy' % (n, want_objs))
            else:
                for k in alive:
                    out = env.actors[k[0]].try_call(
                        lambda k=k: answer(held[k]))
                    if out[0] != 'ok' or out[1] != expect_answer:
                        viol = 'live proxy %s does not answer: %s' % (
                            k, _show(out))
                if viol is None:
                    # release everything: the server must end up empty
                    for who in ('A', 'B'):
                        def dropall(who=who):
                            for k in [k for k in held if k[0] == who]:
                                held.pop(k)
                            gc.collect()
                        env.actors[who].call(dropall)
                    left = len(env.server_ids())
                    if left or srv.id_to_refcount:
                        viol = ('after every proxy was released the server '
                                'still keeps %d object(s), refcounts %r' % (
                                    left,
                                    sorted(srv.id_to_refcount.values())))
        except (Stuck, ActorError) as exc:
            viol = '%s: %s' % (type(exc).__name__, exc)
            outcome = ('error', sc, type(exc).__name__)
        except Exception as exc:
            viol = 'driving the scenario failed: ' + _unexpected(exc)
            outcome = ('error', sc, type(exc).__name__)
        log = env.log
        st = env.sched.status
    return explore.Execution(env.choices.decisions, outcome=outcome,
                             violation=viol, log=log, status=st)


def make_runner(cfg):
    fn = _run_lin if cfg['kind'] == 'lin' else _run_life
    n = [0]

    def run(prefix, expect=None):
        n[0] += 1
        if n[0] % 64 == 0:
            gc.collect()        # (no world is active here)
        return fn(cfg, prefix)
    return run


def _task_c(arg):
    cfg, bound, cap = arg[:3]
    prefix = arg[3] if len(arg) > 3 else ()
    st = explore.dfs(make_runner(cfg), bound, prefix=prefix, max_execs=cap)
    gc.collect()
    d = st.as_dict()
    d['part'] = 'c'
    return d


def _split_c(cfg, bound, cap, want):
    """Expand the first levels of a large exploration in this process and
    return (stats of those executions, subtree tasks)."""
    st = explore.Stats()
    roots = explore.frontier(make_runner(cfg), bound, want, st)
    gc.collect()
    per = cap            # (a safety net per subtree, not a budget to split)
    return st, [(cfg, bound, per, p) for p in roots]


def c_configs(tier):
    """(config, preemption bound, execution cap).  Bound 0 already contains
    every order in which the two clients' requests can reach the server
    (switches at blocking points are free); bound 1 / 2 adds that many
    preemptions anywhere, including between source lines of
    Server.serve_client/create/incref/decref."""
    thorough = tier == 'thorough'
    out = []
    for typ in ('list', 'dict', 'Value'):
        ops = CTYPES[typ]['ops']
        one = [[op] for op in ops]
        k = 0
        for i, a in enumerate(one):
            for b in one[i:]:
                modes = ('threads', 'procs') if thorough else \
                    (('threads', 'procs')[k % 2],)
                k += 1
                for mode in modes:
                    out.append((dict(kind='lin', type=typ, seqs=[a, b],
                                     mode=mode, warm=True),
                                2 if thorough and mode == 'threads' else 1,
                                None))
        # cold: the first call of each client (accept_connection, a new
        # serving thread) is inside the explored phase
        out.append((dict(kind='lin', type=typ, seqs=[one[0], one[1]],
                         mode='threads', warm=False, lines=thorough is False),
                    1 if thorough else 0, 200000))
        two = [[x, y] for x in ops for y in ops if x != y]
        if thorough:
            for a in two[:6]:
                for b in one[:2]:
                    out.append((dict(kind='lin', type=typ, seqs=[a, b],
                                     mode='procs', warm=True), 1, None))
            for a, b in ((two[0], two[1]), (two[3], two[2])):
                out.append((dict(kind='lin', type=typ, seqs=[a, b],
                                 mode='threads', warm=True, lines=False),
                            1, 200000))
        else:
            for a, b in ((two[0], one[1]), (two[3], one[0])):
                out.append((dict(kind='lin', type=typ, seqs=[a, b],
                                 mode='procs', warm=True), 0, None))
    for sc, b in (('drop||copy', 1), ('drop||drop', 1), ('copy||copy', 1),
                  ('call||drop', 1), ('create||drop', 0),
                  ('create||create', 0)):
        if thorough and b == 0:
            out.append((dict(kind='life', scenario=sc), 0, None))
            if sc == 'create||drop':
                out.append((dict(kind='life', scenario=sc, lines=False), 1,
                            200000))
        elif thorough:
            out.append((dict(kind='life', scenario=sc), b, None))
            out.append((dict(kind='life', scenario=sc, lines=False), 2,
                        200000))
        else:
            out.append((dict(kind='life', scenario=sc), b, None))
    return out


# ------------------------------------------------------------------ (d) key
def key_variants(tier):
    out = [('right', KEY)]
    for i in range(len(KEY)):
        for bit in range(8):
            k = bytearray(KEY)
            k[i] ^= 1 << bit
            out.append(('flip%d.%d' % (i, bit), bytes(k)))
    for n in range(len(KEY)):
        out.append(('prefix%d' % n, KEY[:n]))
    # (KEY + b'\0' is not a different key: HMAC pads keys with zero bytes)
    out.append(('ext1', KEY + KEY[:1]))
    out.append(('ext2', KEY + KEY))
    out.append(('nokey', None))
    # a client without the key that speaks the wire protocol by hand and
    # answers the server's challenge with something degenerate
    for nm, resp in (('digest-empty', b''), ('digest-1byte', b'\x00'),
                     ('digest-16-zero', b'\x00' * 16),
                     ('digest-welcome', b'#WELCOME#'),
                     ('digest-echo', 'echo')):
        out.append((nm, Degenerate(resp)))
    return out


class Degenerate:
    """Not a key: what a key-less hostile client sends as its 'digest'."""

    def __init__(self, resp):
        self.resp = resp

    def __repr__(self):
        return 'Degenerate(%r)' % (self.resp,)


D_PATHS = ('connect', 'create', 'number_of_objects', 'proxy-incref',
           'proxy-call', 'autoproxy', 'rebuild', 'raw-create',
           'raw-shutdown', 'raw-decref')


def run_key(name, key, path):
    """Returns (outcome, violation, log)."""
    try:
        return _run_key(name, key, path)
    except Exception as exc:
        return (('error', path, type(exc).__name__),
                'client key %r (%s), %s: driving the scenario failed: %s' % (
                    key, name, path, _unexpected(exc)), [])


def _run_key(name, key, path):
    viol = None
    with Env() as env:
        srv = env.server
        calls = []

        def counted(fname):
            real = getattr(srv, fname)

            def w(*a, **kw):
                calls.append(fname)
                return real(*a, **kw)
            return w
        U = env.actor('U', P_PID)

        def setup():
            env.mgr.connect()
            env.held['good'] = env.mgr.list([5])
            return env.held['good']._token
        token = U.call(setup)
        for f in srv.public + ['serve_client']:
            setattr(srv, f, counted(f))
        before = (sorted(srv.id_to_obj), dict(srv.id_to_refcount),
                  list(srv.id_to_obj[token.id][0]), srv.stop_event.is_set())
        X = env.actor('X', Q_PID)
        addr = srv.address

        def raw(fname, args):
            def f():
                c, s = bconn.Pipe(duplex=True)
                _Net.conns.extend((c, s))
                _Net.listeners[addr].backlog.put(s)
                err = None
                if isinstance(key, Degenerate):
                    try:
                        ch = c.recv_bytes(256)
                        c.send_bytes(ch[len(bconn.CHALLENGE):]
                                     if key.resp == 'echo' else key.resp)
                        verdict = c.recv_bytes(256)
                        if verdict != bconn.WELCOME:
                            raise AuthenticationError('refused')
                        # the server now authenticates itself to us: let it
                        c.send_bytes(bconn.CHALLENGE + b'x' * 20)
                        c.recv_bytes(256)
                        c.send_bytes(bconn.WELCOME)
                    except AuthenticationError as e:
                        err = e
                    except (EOFError, OSError) as e:
                        err = AuthenticationError('connection dropped: %r'
                                                  % (e,))
                elif key is not None:
                    try:
                        bconn.answer_challenge(c, key)
                        bconn.deliver_challenge(c, key)
                    except AuthenticationError as e:
                        err = e        # a hostile client carries on anyway
                try:
                    c.send((None, fname, args, {}))
                    reply = c.recv()
                except Exception as e:
                    reply = ('#DEAD', type(e).__name__)
                c.close()
                if err is not None:
                    raise err
                if reply[0] != '#RETURN':
                    raise ConnectionError('request not served: %r' % (
                        reply[:2],))
                return reply[0]
            return f

        def attempt():
            if path.startswith('raw-'):
                args = {'raw-create': ('list',), 'raw-shutdown': (),
                        'raw-decref': (token.id,)}[path]
                return raw(path[4:], args)()
            if path in ('connect', 'create', 'number_of_objects'):
                m = VManager(address=addr, authkey=key or b'',
                             serializer='inproc')
                if key is None:
                    m._authkey = None
                if path == 'connect':
                    return m.connect()
                m._state.value = bm.State.STARTED
                if path == 'create':
                    env.held['new'] = m.list()
                    return None
                return m._number_of_objects()
            if path == 'proxy-incref':
                env.held['q'] = bm.ListProxy(token, 'inproc', authkey=key)
                return None
            if path == 'proxy-call':
                q = bm.ListProxy(token, 'inproc', authkey=key, incref=False)
                if key is None:
                    q._authkey = None
                return q.append(9)
            if path == 'autoproxy':
                env.held['q'] = bm.AutoProxy(token, 'inproc', authkey=key,
                                             incref=False)
                return None
            if path == 'rebuild':
                env.held['q'] = bm.RebuildProxy(
                    bm.ListProxy, token, 'inproc', {'authkey': key})
                return None
            raise ValueError(path)
        skip = (key is None and path in ('proxy-incref', 'autoproxy',
                                         'rebuild')) or (
            isinstance(key, Degenerate) and not path.startswith('raw-'))
        if skip:
            # authkey=None means "use the process key" on these paths
            return ('skip',), None, env.log
        try:
            out = X.try_call(attempt)
        except Stuck as exc:
            out = ('stuck', str(exc))
        env.ev(name, path, _show(out) if out[0] in ('ok', 'exc') else out,
               'server methods run', list(calls))
        right = name == 'right'
        if right:
            if out[0] != 'ok':
                viol = 'with the right key %s failed: %s' % (path, _show(out))
            elif not calls:
                viol = 'with the right key %s ran no server method' % path
            outcome = (path, 'right', 'ok', tuple(calls))
        else:
            after = (sorted(srv.id_to_obj), dict(srv.id_to_refcount),
                     list(srv.id_to_obj[token.id][0])
                     if token.id in srv.id_to_obj else None,
                     srv.stop_event.is_set())
            if calls:
                viol = ('client key %r (%s), %s: server method(s) %r ran '
                        'for a client that does not have the key' % (
                            key, name, path, calls))
            elif after != before:
                viol = ('client key %r (%s), %s: server state changed: %r '
                        '-> %r' % (key, name, path, before, after))
            elif out[0] == 'ok':
                viol = ('client key %r (%s), %s: the call succeeded' % (
                    key, name, path))
            elif out[0] == 'stuck':
                viol = ('client key %r (%s), %s: %s' % (key, name, path,
                                                        out[1]))
            elif key is not None and out[1] is not AuthenticationError:
                viol = ('client key %r (%s), %s: client got %s instead of '
                        'AuthenticationError' % (key, name, path, _show(out)))
            outcome = (path, 'nokey' if key is None else 'wrong',
                       out[1].__name__ if out[0] == 'exc' else out[0])
        log = env.log
    return outcome, viol, log


def _key_json(key):
    if key is None:
        return None
    if isinstance(key, Degenerate):
        return {'degenerate': key.resp if isinstance(key.resp, str)
                else list(key.resp)}
    return list(key)


def _key_unjson(k):
    if k is None:
        return None
    if isinstance(k, dict):
        r = k['degenerate']
        return Degenerate(r if isinstance(r, str) else bytes(r))
    return bytes(k)


def _task_d(arg):
    name, key = arg
    res = dict(part='d', evals=0, outcomes=set(), viols=[], samples=[])
    for path in D_PATHS:
        outcome, viol, _ = run_key(name, key, path)
        res['evals'] += 1
        res['outcomes'].add(repr(outcome))
        if viol:
            res['viols'].append((viol, dict(part='d', name=name,
                                            key=_key_json(key), path=path)))
    res['samples'].append({'key': name, 'paths': list(D_PATHS)})
    gc.collect()
    return res


# ------------------------------------------------------------------- driver
MAX_REPORT = 3          # violations written out per part (all are counted)
SAMPLE_TYPES = ('list', 'Namespace', 'BoundedSemaphore', 'Queue', 'Iterator')

def _task(arg):
    kind = arg[0]
    t0 = vos._real['monotonic']()
    r = {'a': _task_a, 'b': _task_b, 'c': _task_c, 'd': _task_d}[kind](
        arg[1])
    r['elapsed'] = vos._real['monotonic']() - t0
    return r


def a_tasks(tier):
    out = []
    for typ in specs():
        d = depth_of(typ, tier)
        n = len(spec_of(typ).ops)
        hl = 1 if tier == 'quick' else 2
        for head in itertools.product(range(n), repeat=min(hl, d)):
            out.append(('a', (typ, d, head)))
    return out


def _bfs_b(rep, tier, seed):
    """(b): level-synchronous BFS over histories, expansions in parallel."""
    caps = CAPS[tier]
    root = run_hist((), tier)
    stats = dict(states=1, transitions=0, depth=0, samples=[])
    if root['viol']:
        rep.violation(root['viol'], dict(harness='c20', part='b',
                                         hist=[], tier=tier))
        frontier = []
    else:
        frontier = [((), root['events'])]
    seen = {root['canon']}
    viol_found = False
    for depth in range(1, caps['depth'] + 1):
        exp = [h + (ev,) for h, evs in frontier for ev in evs]
        if not exp or viol_found:
            break
        order = list(range(len(exp)))
        random.Random(seed + depth).shuffle(order)
        got = par.pmap('harness.c20:_task',
                       [('b', (exp[i], tier)) for i in order],
                       chunksize=max(1, len(exp) // (par.NPROC * 6)))
        rs = [None] * len(exp)
        for i, r in zip(order, got):
            rs[i] = r
        frontier = []
        stats['depth'] = depth
        for h, r in zip(exp, rs):
            stats['transitions'] += 1
            if r['viol']:
                if not viol_found:
                    rep.violation(r['viol'], dict(
                        harness='c20', part='b',
                        hist=[list(e) for e in h], tier=tier))
                viol_found = True
                continue
            if r['canon'] not in seen:
                seen.add(r['canon'])
                frontier.append((h, [tuple(e) for e in r['events']]))
                if len(stats['samples']) < 40:
                    stats['samples'].append([list(e) for e in h])
    stats['states'] = len(seen)
    smp = stats['samples']
    return dict(evaluations=stats['transitions'] + 1,
                states=stats['states'], transitions=stats['transitions'],
                outcomes=seen, samples=smp[-2:] if smp else [],
                max_depth=stats['depth'], caps_used=caps)


def main(tier, seed, only=None):
    rep = report.Report(PID, tier, seed)
    want = (lambda p: only is None or p in only)
    tasks = []
    if want('a'):
        tasks += a_tasks(tier)
    ccfg = c_configs(tier) if want('c') else []
    pre_c = []
    for cfg, bound, cap in ccfg:
        if cfg['kind'] == 'life' or bound >= 2 or cap is not None:
            st, subs = _split_c(cfg, bound, cap, 12)
            pre_c.append((cfg, st))
            tasks += [('c', sub) for sub in subs]
        else:
            tasks.append(('c', (cfg, bound, cap)))
    if want('d'):
        tasks += [('d', kv) for kv in key_variants(tier)]
    order = list(range(len(tasks)))
    random.Random(seed).shuffle(order)
    # the seed permutes the order; the (long) part (c) explorations go first
    # so that the workers stay busy to the end
    order.sort(key=lambda i: {'c': 0, 'a': 1, 'd': 2}[tasks[i][0]])
    res = [None] * len(tasks)
    pending = None
    if tasks and par.NPROC > 1:
        # submitted first; part (b)'s BFS levels below fill the workers
        # that fall idle while the longest explorations finish
        pending = par.pool().map_async(
            par._call, [('harness.c20:_task', tasks[i]) for i in order], 1)
    b_result = _bfs_b(rep, tier, seed) if want('b') else None
    if tasks:
        got = pending.get() if pending is not None else \
            [_task(tasks[i]) for i in order]
        for i, r in zip(order, got):
            res[i] = r

    nviol = collections.Counter()
    nrep = collections.Counter()
    if os.environ.get('C20_TIMING'):
        tt = sorted(((r['elapsed'], t) for t, r in zip(tasks, res)),
                    key=lambda x: -x[0])
        print('main pmap done at %.1fs; cpu %.0fs; slowest:' % (
            vos._real['time']() - rep.t0, sum(x[0] for x in tt)))
        for e, t in tt[:8]:
            print('  %.1fs %r' % (e, t))

    # ---- (a)
    by_type = collections.OrderedDict()
    f10_n, f10_first = 0, None
    for t, r in zip(tasks, res):
        if t[0] != 'a':
            continue
        d = by_type.setdefault(r['typ'], dict(evals=0, steps=0,
                                              outcomes=set(), samples=[]))
        d['evals'] += r['evals']
        d['steps'] += r['steps']
        d['outcomes'] |= r['outcomes']
        d['samples'] += r['samples']
        for msg, rp in r['viols']:
            nrep['a'] += 1
            if nrep['a'] <= MAX_REPORT:
                rep.violation(msg, dict(rp, harness='c20'))
        nviol['a'] += r['nviol']
        f10_n += r['f10']
        if r['f10_first'] and (f10_first is None or
                               (len(r['f10_first'][1]['seq']),
                                r['f10_first'][1]['seq']) <
                               (len(f10_first[1]['seq']),
                                f10_first[1]['seq'])):
            f10_first = r['f10_first']
    for typ, d in by_type.items():
        rep.part('equiv:' + typ, evaluations=d['evals'],
                 transitions=d['steps'], states=len(d['outcomes']),
                 outcomes=d['outcomes'],
                 samples=d['samples'][:1] if typ in SAMPLE_TYPES else [],
                 depth=depth_of(typ, tier), alphabet=len(spec_of(typ).ops))
    if f10_n:
        rep.violation(
            'Iterator returned through a proxy: next() fails, %d op '
            'sequences affected; first: ops %r: %s' % (
                f10_n, [spec_of('Iterator').ops[i][0]
                        for i in f10_first[1]['seq']], f10_first[0]),
            dict(f10_first[1], harness='c20'), signature=F10)

    # ---- (d)
    dd = dict(evals=0, outcomes=set(), samples=[])
    for t, r in zip(tasks, res):
        if t[0] != 'd':
            continue
        dd['evals'] += r['evals']
        dd['outcomes'] |= r['outcomes']
        dd['samples'] += r['samples']
        for msg, rp in r['viols']:
            nviol['d'] += 1
            if nviol['d'] <= MAX_REPORT:
                rep.violation(msg, dict(rp, harness='c20'))
    if want('d'):
        rep.part('key', evaluations=dd['evals'], states=len(dd['outcomes']),
                 outcomes=dd['outcomes'], samples=dd['samples'][:2],
                 variants=len(key_variants(tier)), paths=len(D_PATHS))

    if b_result is not None:
        rep.part('lifetime', **b_result)

    # ---- (c)
    by_kind = {}
    c_res = [(cfg, st.as_dict(), True) for cfg, st in pre_c] + \
        [(t[1][0], r, len(t[1]) <= 3) for t, r in zip(tasks, res)
         if t[0] == 'c']
    for cfg, r, is_cfg in c_res:
        name = 'conc:' + (cfg['type'] if cfg['kind'] == 'lin'
                          else 'lifetime')
        st = by_kind.setdefault(name, explore.Stats())
        st.merge(r)
        st.__dict__.setdefault('configs', 0)
        st.configs += 1 if is_cfg else 0
        for ch, msg in r['violations']:
            nviol['c'] += 1
            if nviol['c'] <= MAX_REPORT:
                rep.violation('%s\nconfig=%r' % (msg, cfg),
                              dict(harness='c20', part='c', config=cfg,
                                   choices=ch))
    for name in sorted(by_kind):
        st = by_kind[name]
        rep.stats(name, st, configs=st.configs)

    for part, n in sorted(nviol.items()):
        if n > MAX_REPORT:
            print('(part %s: %d further violating cases not written out)' % (
                part, n - MAX_REPORT))
    rep.assume(
        'transport: listener_client["inproc"] = a billiard.connection.Pipe '
        'over virtual fds plus the real answer_challenge/deliver_challenge '
        'handshake; real sockets/Listener are not exercised here (C13/C18)',
        'server and clients are vthreads of one interpreter; a virtual '
        'process is a pid with its own BaseProxy._address_to_local, '
        'thread-local storage and Finalize pid; a forked child is modelled '
        'as a memory copy of the proxy plus the real _after_fork()',
        'referents are the real registered callables (threading.Lock, '
        'queue.Queue, list, ...); calls that would block a sole client '
        'forever (acquire of a held lock, get on an empty queue) are skipped',
        'part (a) runs each op sequence on one deterministic schedule; '
        'part (c) explores every interleaving of pipe/lock operations and of '
        'source lines of Server.serve_client/create/incref/decref within the '
        'preemption bound listed per part (max_cost)',
        'part (c): establishing a connection (socketpair, accept, handler '
        'thread start, authentication handshake) is scheduled as one atomic '
        'step: each of its steps touches only the new connection and '
        'commutes with every step of the other vthreads; which client '
        'connects first remains an explored decision; one "cold" '
        'configuration per type has the accept_connection request inside '
        'the explored phase',
        'Pool/AsyncResult are not hosted (they start real processes)')
    return rep.finish()


def replay(rp):
    part = rp.get('part')
    if part == 'a':
        outcome, viol, finding, log = run_seq(rp['typ'], tuple(rp['seq']))
        viol = viol or finding
    elif part == 'b':
        r = run_hist(tuple(tuple(e) for e in rp['hist']),
                     rp.get('tier', 'quick'))
        outcome, viol, log = r['canon'], r['viol'], r['log']
    elif part == 'c':
        x = make_runner(rp['config'])(rp['choices'])
        outcome, viol, log = x.outcome, x.violation, x.log
        print('schedule (decision label -> alternative taken):')
        for d in x.decisions:
            print('  %s -> %d' % (d.label, d.chosen))
    elif part == 'd':
        key = _key_unjson(rp['key'])
        outcome, viol, log = run_key(rp['name'], key, rp['path'])
    else:
        print('unknown replay part %r' % part)
        return 2
    for e in log:
        print(e)
    print('outcome', outcome)
    print('violation:', viol)
    return 1 if viol else 0
