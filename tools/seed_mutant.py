#!/usr/bin/env python3
"""tools/seed_mutant.py <outdir> <k> <seed-id> <check-id> [<check-id>...]

Confirms one candidate change produced by a breaker agent and files it under
/verif/seeded/<seed-id>/:
  1. scratch copy of /repo (outside /repo and /verif), demo on the unchanged
     copy must PASS (exit 0);
  2. apply the patch; the demo must FAIL (non-zero);
  3. the repository's own test suite must still pass with the patch applied
     (the two timing-sensitive tests listed in BASELINE.json as flaky / load
     sensitive are tolerated);
  4. run the named checks (quick tier) against the patched copy; record exit
     codes and first VIOLATION message.
Nothing is ever applied to /repo itself; the scratch copy is removed.
"""
import json
import os
import re
import shutil
import subprocess
import sys
import tempfile

TOLERATED = ('test_on_ready_counter_is_synchronized', 'test_set_pdeathsig')


def sh(cmd, cwd=None, env=None, timeout=1800):
    # output goes to a file, not a pipe: pool workers orphaned by a demo or
    # by the unit suite keep a pipe open and the read would never end
    with tempfile.TemporaryFile() as out:
        try:
            p = subprocess.run(cmd, shell=True, cwd=cwd, env=env,
                               timeout=timeout, stdout=out,
                               stderr=subprocess.STDOUT,
                               stdin=subprocess.DEVNULL,
                               start_new_session=True)
            rc, tail = p.returncode, ''
        except subprocess.TimeoutExpired:
            rc, tail = 124, '\nTIMEOUT'
        out.seek(0)
        return rc, out.read().decode(errors='replace') + tail


def main():
    recheck = False
    if sys.argv[1] == '--recheck':
        # keep the recorded confirmation (demo + suite), re-run the checks
        sys.argv[1] = '--reseed'
        recheck = True
    if sys.argv[1] == '--reseed':
        # re-confirm and re-check an already filed seed
        seed_id = sys.argv[2]
        checks = sys.argv[3:]
        d = os.path.join('/verif/seeded', seed_id)
        patch, demo = os.path.join(d, 'patch.diff'), os.path.join(d, 'demo.py')
        meta = json.load(open(os.path.join(d, 'meta.json')))
        kept = meta.get('confirmed') if recheck else None
        meta = {k: v for k, v in meta.items()
                if k not in ('confirmed', 'checks', 'what_was_run')}
    else:
        outdir, k, seed_id = sys.argv[1], sys.argv[2], sys.argv[3]
        checks = sys.argv[4:]
        patch = os.path.join(outdir, 'mutant%s.diff' % k)
        demo = os.path.join(outdir, 'demo%s.py' % k)
        meta = json.load(open(os.path.join(outdir, 'meta%s.json' % k)))
    tmp = tempfile.mkdtemp(prefix='vmc-seed-', dir='/var/tmp')
    res = dict(meta)
    try:
        repo = os.path.join(tmp, 'repo')
        shutil.copytree('/repo', repo, symlinks=True)
        env = dict(os.environ, PYTHONPATH=repo, PYTHONDONTWRITEBYTECODE='1')
        rc0, out0 = sh('timeout -s KILL 170 /venv/bin/python %s' % demo,
                       cwd=repo, env=env)
        rca, outa = sh('git apply %s' % patch, cwd=repo)
        if rca != 0:
            res['confirmed'] = dict(ok=False, why='patch does not apply to '
                                    'the current tree: ' + outa[-300:])
            print(json.dumps(res['confirmed']))
            return 2
        if recheck and kept and kept.get('ok'):
            # confirmed earlier (demo fails with the patch, suite passes):
            # only the checks are run again
            rc1, out1 = kept['demo_on_mutant'], kept.get('demo_tail_mutant', '')
            rct, outt = 0, kept.get('suite', '')
        else:
            rc1, out1 = sh('timeout -s KILL 170 /venv/bin/python %s' % demo,
                           cwd=repo, env=env)
            rct, outt = sh('timeout -s KILL 900 /venv/bin/python -m pytest '
                           '-q -p no:cacheprovider --timeout=300 t/unit',
                           cwd=repo, env=env)
        failed = re.findall(r'^FAILED (\S+)', outt, re.M)
        bad = [f for f in failed if not any(t in f for t in TOLERATED)]
        summary = [l for l in outt.splitlines() if ' passed' in l or
                   ' failed' in l][-1:] or [outt[-200:]]
        ok = rc0 == 0 and rc1 != 0 and not bad and rct in (0, 1)
        res['confirmed'] = dict(
            ok=ok, demo_on_original=rc0, demo_on_mutant=rc1,
            demo_tail_original=out0.strip()[-200:],
            demo_tail_mutant=out1.strip()[-300:],
            suite=summary[0], suite_failed=failed)
        cres = {}
        for c in checks:
            e2 = dict(os.environ, VMC_REPO=repo, VMC_NO_EVIDENCE='1',
                      VMC_REPLAY_DIR=os.path.join(tmp, 'replays'))
            rc, out = sh('./check %s --tier quick' % c, cwd='/verif', env=e2,
                         timeout=2400)
            msgs = re.findall(r'^VIOLATION .*\n  (.*)', out, re.M)
            cres[c] = dict(rc=rc, violation_lines=len(msgs),
                           first=(msgs[0][:300] if msgs else None),
                           known=re.findall(r'^KNOWN-FINDING: property=\S+ (\S+):',
                                            out, re.M))
        res['checks'] = cres
        res['what_was_run'] = (
            'scratch copy of /repo at %s; demo before/after git apply; '
            'pytest t/unit with the patch; ./check <id> --tier quick with '
            'VMC_REPO pointing at the patched copy' % subprocess.check_output(
                ['git', '-C', '/repo', 'rev-parse', '--short', 'HEAD']
            ).decode().strip())
        dst = os.path.join('/verif/seeded', seed_id)
        os.makedirs(dst, exist_ok=True)
        if os.path.abspath(patch) != os.path.join(dst, 'patch.diff'):
            shutil.copy(patch, os.path.join(dst, 'patch.diff'))
            shutil.copy(demo, os.path.join(dst, 'demo.py'))
        with open(os.path.join(dst, 'meta.json'), 'w') as f:
            json.dump(res, f, indent=1, sort_keys=True)
        print(seed_id, 'confirmed=%s' % ok,
              {c: (v['rc'], v['first'] and v['first'][:90]) for c, v in cres.items()})
        return 0 if ok else 1
    finally:
        shutil.rmtree(tmp, ignore_errors=True)


if __name__ == '__main__':
    sys.exit(main())
