"""./check entry point."""
import argparse
import importlib
import json
import os
import sys
import traceback


def main():
    ap = argparse.ArgumentParser()
    ap.add_argument('prop')
    ap.add_argument('--tier', default=os.environ.get('VERIF_TIER') or 'quick')
    ap.add_argument('--replay')
    ap.add_argument('--only', help='run only the named part(s), comma sep')
    a = ap.parse_args()
    seed = int(os.environ.get('VERIF_SEED', '0') or 0)
    pid = a.prop.upper()
    try:
        mod = importlib.import_module('harness.%s' % pid.lower())
        from . import par
    except BaseException:
        # the harness could not even be set up against this tree: that is
        # an error of the machinery, never a verdict about the property
        traceback.print_exc()
        print('HARNESS-ERROR property=%s' % pid)
        sys.stdout.flush()
        os._exit(2)
    try:
        if a.replay:
            with open(a.replay) as f:
                rp = json.load(f)
            rc = mod.replay(rp)
        else:
            only = set(a.only.split(',')) if a.only else None
            rc = mod.main(a.tier, seed, only) if only else mod.main(a.tier, seed)
    except SystemExit:
        raise
    except BaseException:
        traceback.print_exc()
        print('HARNESS-ERROR property=%s' % pid)
        rc = 2
        par.shutdown(force=True)
    finally:
        par.shutdown()
    sys.stdout.flush()
    sys.stderr.flush()
    os._exit(rc or 0)


if __name__ == '__main__':
    main()
