"""Parallel driver: fresh interpreters (spawn), deterministic merge."""
import importlib
import multiprocessing
import os
import time

from . import explore

NPROC = int(os.environ.get('VMC_NPROC', '0')) or min(16, os.cpu_count() or 1)


def _resolve(spec):
    mod, _, name = spec.partition(':')
    return getattr(importlib.import_module(mod), name)


def _subtree(args):
    spec, config, prefix, bound, max_execs, deadline = args
    run_fn = _resolve(spec)(config)
    st = explore.dfs(run_fn, bound, prefix=prefix, max_execs=max_execs,
                     deadline=deadline)
    return st.as_dict()


def _call(args):
    spec, a = args
    return _resolve(spec)(a)


_pool = None
_ALLCPUS = sorted(os.sched_getaffinity(0))


def pin(cpu=None):
    """Keep all vthreads of this interpreter on one CPU: baton hand-offs
    between threads then need no cross-CPU wake-up (3x faster here)."""
    try:
        if cpu is None:
            cpu = _ALLCPUS[os.getpid() % len(_ALLCPUS)]
        os.sched_setaffinity(0, {cpu})
    except (OSError, AttributeError):
        pass


def _init(q, cpus):
    try:
        os.sched_setaffinity(0, set(cpus))
    except OSError:
        pass
    pin(q.get())


def pool():
    global _pool
    if _pool is None:
        ctx = multiprocessing.get_context('spawn')
        q = ctx.Queue()
        for i in range(NPROC):
            q.put(_ALLCPUS[i % len(_ALLCPUS)])
        _pool = ctx.Pool(NPROC, initializer=_init, initargs=(q, _ALLCPUS))
    return _pool


def shutdown(force=False):
    global _pool
    if _pool is not None:
        if force:
            _pool.terminate()     # a worker may be stuck after an error
        else:
            _pool.close()
        _pool.join()
        _pool = None


def pmap(spec, items, chunksize=1):
    """Ordered parallel map of module:function over items (fresh workers)."""
    items = list(items)
    if NPROC <= 1 or len(items) <= 1:
        fn = _resolve(spec)
        return [fn(a) for a in items]
    return _collect(pool().map_async(_call, [(spec, a) for a in items],
                                     chunksize))


class WorkerDied(RuntimeError):
    """A checker interpreter crashed: the stdlib pool would wait for its
    result for ever."""


def _pids():
    return sorted(w.pid for w in _pool._pool)


def _collect(ar, pids=None):
    pids = pids or _pids()
    while True:
        try:
            return ar.get(timeout=10)
        except multiprocessing.TimeoutError:
            if _pids() != pids or any(w.exitcode is not None
                                      for w in _pool._pool):
                raise WorkerDied('a checker process died (interpreter crash?)'
                                 '; pids %r -> %r' % (pids, _pids()))


def dfs(spec, config, bound, want=None, max_execs=None, budget_s=None):
    """Explore the whole tree of ``spec(config)`` within ``bound``; the first
    levels in this process, subtrees in workers.  Returns explore.Stats."""
    stats = explore.Stats()
    run_fn = _resolve(spec)(config)
    deadline = time.time() + budget_s if budget_s else None
    want = want or NPROC * 8
    if NPROC <= 1:
        return explore.dfs(run_fn, bound, stats=stats, max_execs=max_execs,
                           deadline=deadline)
    roots = explore.frontier(run_fn, bound, want, stats)
    if stats.violations or not roots:
        return stats
    per = None
    if max_execs is not None:
        per = max(1, (max_execs - stats.executions) // len(roots))
    tasks = [(spec, config, p, bound, per, deadline) for p in roots]
    it = pool().imap(_subtree, tasks)
    pids = _pids()
    for _ in tasks:
        while True:
            try:
                d = it.next(timeout=10)
                break
            except multiprocessing.TimeoutError:
                if _pids() != pids:
                    raise WorkerDied('a checker process died')
        stats.merge(d)
    return stats
