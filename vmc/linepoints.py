"""Line-level scheduling points through sys.monitoring (PEP 669): every LINE
event of the designated code objects, raised inside a vthread of a scheduler
whose ``linepoints`` flag is set, becomes a scheduling point.  This is how
unsynchronised read-modify-write sequences on plain attributes are explored.
"""
import sys
import types

from .sched import current

mon = sys.monitoring
TOOL = 4
_active = set()
_registered = False


def codes_of(*objs):
    """All code objects of functions / classes / modules given (nested
    functions and comprehensions included)."""
    out = set()

    def add_code(c):
        if c in out:
            return
        out.add(c)
        for k in c.co_consts:
            if isinstance(k, types.CodeType):
                add_code(k)

    def add(o, depth=0):
        if isinstance(o, types.CodeType):
            add_code(o)
        elif isinstance(o, (types.FunctionType,)):
            add_code(o.__code__)
        elif isinstance(o, (staticmethod, classmethod)):
            add(o.__func__, depth)
        elif isinstance(o, types.MethodType):
            add(o.__func__, depth)
        elif isinstance(o, property):
            for f in (o.fget, o.fset, o.fdel):
                if f is not None:
                    add(f, depth)
        elif isinstance(o, type) and depth < 2:
            for v in vars(o).values():
                add(v, depth + 1)
    for o in objs:
        add(o)
    return out


def _on_line(code, line):
    vt = current()
    if vt is None or vt.nopreempt or not vt.sched.linepoints or vt.killed:
        return None
    vt.sched.point('line', (code.co_name, line))
    return None


def _on_instruction(code, offset):
    vt = current()
    if vt is None or vt.nopreempt or not vt.sched.linepoints or vt.killed:
        return None
    vt.sched.point('line', (code.co_name, 'i%d' % offset))
    return None


def enable(codes, instructions=False):
    """LINE events of ``codes`` become scheduling points; with
    ``instructions=True`` every bytecode instruction does (needed to split a
    one-line read-modify-write such as ``d[k] -= 1``)."""
    global _registered
    if not _registered:
        mon.use_tool_id(TOOL, 'vmc')
        mon.register_callback(TOOL, mon.events.LINE, _on_line)
        mon.register_callback(TOOL, mon.events.INSTRUCTION, _on_instruction)
        _registered = True
    ev = mon.events.INSTRUCTION if instructions else mon.events.LINE
    for c in codes:
        if c not in _active:
            mon.set_local_events(TOOL, c, ev)
            _active.add(c)


def disable():
    for c in list(_active):
        mon.set_local_events(TOOL, c, 0)
    _active.clear()


class nopreempt:
    """``with nopreempt():`` -- harness code sections inside a vthread that
    must not contain line-level points."""

    def __enter__(self):
        vt = current()
        if vt is not None:
            vt.nopreempt += 1

    def __exit__(self, *a):
        vt = current()
        if vt is not None:
            vt.nopreempt -= 1
