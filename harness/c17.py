"""C17 -- locks, semaphores, conditions, events: no lost wake-ups.

The real classes of billiard/synchronize.py run over the VSemLock model; the
scheduling granularity is one semaphore operation (the property's
quantifier).  DESIGN.md section 5, C17.
"""
import itertools

from vmc import vctx, vos, sched as vs, explore, par, report
from vmc.sched import TIMEOUT
from billiard import synchronize as bsync

CTX = vctx.VContext()


# ----------------------------------------------------------------- scenarios
def _mk(cfg):
    kind = cfg['kind']
    return globals()['_run_' + kind]


class Env:
    """One execution: world + scheduler + event log."""

    def __init__(self, prefix, horizon=60.0, timer_deviation=True,
                 max_steps=4000):
        self.choices = vs.Choices(prefix)
        self.sched = vs.Scheduler(self.choices, horizon=1000.0 + horizon,
                                  timer_deviation=timer_deviation,
                                  max_steps=max_steps)
        self.log = []
        self.pids = itertools.count(5000)

    def ev(self, *a):
        self.log.append(a + (self.sched.now,))

    def copy_for(self, obj, shared):
        return obj if shared else vctx.clone(obj)

    def spawn(self, fn, name, shared):
        # shared copies = threads of one process; otherwise one pid each
        pid = vos.MAIN_PID if shared else next(self.pids)
        return self.sched.spawn(fn, name, pid=pid)


def _finish(env, violation, outcome):
    st = env.sched.status
    errs = [(t.name, type(t.exc).__name__, str(t.exc)[:80])
            for t in env.sched.threads if t.exc is not None]
    if errs:
        if isinstance(violation, tuple):
            violation = violation[0]
        violation = 'exception inside billiard code: %r%s' % (
            errs, ('; ' + violation) if violation else '')
    if st in ('step-horizon', 'time-horizon') and not violation:
        violation = 'horizon hit (%s): execution did not quiesce' % st
    return explore.Execution(env.choices.decisions, outcome=outcome,
                             violation=violation, log=env.log, status=st)


# ---- (a) mutual exclusion / counting -------------------------------------
def _run_mutex(cfg, prefix):
    """N vthreads each enter ``with lock`` R times; a witness counter checks
    the number of simultaneous holders at every step inside."""
    env = Env(prefix, timer_deviation=False)
    with vos.fresh(env.sched):
        typ, n, nthreads, rounds, shared = (
            cfg['type'], cfg['n'], cfg['threads'], cfg['rounds'], cfg['shared'])
        if typ == 'Lock':
            lock, limit = CTX.Lock(), 1
        elif typ == 'RLock':
            lock, limit = CTX.RLock(), 1
        elif typ == 'Semaphore':
            lock, limit = CTX.Semaphore(n), n
        else:
            lock, limit = CTX.BoundedSemaphore(n), n
        holders = [0]
        worst = [0]
        bad = []

        def body(i, lk):
            def run():
                for r in range(rounds):
                    lk.acquire()
                    if typ == 'RLock':
                        lk.acquire()      # re-entrant for the owner
                    holders[0] += 1
                    worst[0] = max(worst[0], holders[0])
                    if holders[0] > limit:
                        bad.append(('holders', holders[0], i))
                    env.sched.point('in-cs', None)
                    if holders[0] > limit:
                        bad.append(('holders', holders[0], i))
                    holders[0] -= 1
                    if typ == 'RLock':
                        lk.release()
                    lk.release()
                return 'ok'
            return run
        for i in range(nthreads):
            env.spawn(body(i, env.copy_for(lock, shared)), 'T%d' % i, shared)
        env.sched.run()
        v = None
        if bad:
            v = 'more holders than the count admits: %r' % (bad[:3],)
        elif env.sched.status != 'done':
            v = 'did not finish: %s %r' % (env.sched.status,
                                           env.sched.describe())
        elif lock._semlock._get_value() != (
                1 if typ in ('Lock', 'RLock') else n):
            v = 'semaphore value not restored: %r' % lock._semlock._get_value()
        return _finish(env, v, ('mutex', worst[0], env.sched.status))


def _run_overrelease(cfg, prefix):
    """Sequential histories over acquire(False)/release from two virtual
    processes; reference model = counter with bound."""
    env = Env(prefix)
    with vos.fresh(None):
        typ, n, seq = cfg['type'], cfg['n'], cfg['seq']
        mk = {'Lock': CTX.Lock, 'RLock': CTX.RLock,
              'Semaphore': lambda: CTX.Semaphore(n),
              'BoundedSemaphore': lambda: CTX.BoundedSemaphore(n)}[typ]
        a = mk()
        copies = {0: a, 1: vctx.clone(a)}
        value = 1 if typ in ('Lock', 'RLock') else n
        bound = {'Lock': 1, 'RLock': 1, 'Semaphore': None,
                 'BoundedSemaphore': n}[typ]
        depth = {0: 0, 1: 0}          # RLock recursion per process
        owner = None
        obs = []
        v = None
        for step, (who, op) in enumerate(seq):
            lk = copies[who]
            with vos.as_process(7000 + who):
                try:
                    if op == 'acq':
                        got = lk.acquire(False)
                    else:
                        lk.release()
                        got = 'rel'
                except (ValueError, AssertionError) as exc:
                    got = type(exc).__name__
            # reference
            if op == 'acq':
                if typ == 'RLock' and owner == who:
                    depth[who] += 1
                    exp = True
                elif value > 0:
                    value -= 1
                    exp = True
                    if typ == 'RLock':
                        owner, depth[who] = who, 1
                else:
                    exp = False
            else:
                if typ == 'RLock':
                    if owner != who:
                        exp = 'AssertionError'
                    else:
                        depth[who] -= 1
                        exp = 'rel'
                        if depth[who] == 0:
                            owner = None
                            value += 1
                elif bound is not None and value >= bound:
                    exp = 'ValueError'
                else:
                    value += 1
                    exp = 'rel'
            obs.append(got)
            if got != exp:
                v = 'step %d %r: got %r, reference says %r (history %r)' % (
                    step, (who, op), got, exp, seq)
                break
            if a._semlock._get_value() != value:
                v = 'step %d: semaphore value %d, reference %d' % (
                    step, a._semlock._get_value(), value)
                break
        env.sched.status = 'done'
        return _finish(env, v, ('seq', tuple(obs)))


def _run_relrace(cfg, prefix):
    """Releases of a bounded semaphore / lock from several *processes*
    with the extension's two-step release (bound test, then post) modelled
    as two steps.  Oracle: the value never exceeds the bound and exactly
    min(releases, bound - start) releases are accepted."""
    env = Env(prefix, timer_deviation=False)
    with vos.fresh(env.sched) as world:
        world.split_release = True
        typ, n, start, k = cfg['type'], cfg['n'], cfg['start'], cfg['procs']
        lock = CTX.Lock() if typ == 'Lock' else CTX.BoundedSemaphore(n)
        bound = 1 if typ == 'Lock' else n
        for _ in range(bound - start):
            lock.acquire()
        res = {}

        def body(i, lk):
            def run():
                try:
                    lk.release()
                    res[i] = 'ok'
                except ValueError:
                    res[i] = 'refused'
            return run
        for i in range(k):
            env.spawn(body(i, env.copy_for(lock, False)), 'P%d' % i, False)
        env.sched.run()
        val = lock._semlock._get_value()
        acc = sorted(res.values()).count('ok')
        v = None
        if env.sched.status != 'done':
            v = 'did not finish: %s' % env.sched.status
        elif val > bound or acc != min(k, bound - start):
            v = ('%s(%d) at value %d: %d processes released at once, %d '
                 'releases were accepted and the value is now %d (bound %d):'
                 ' over-release not refused' % (typ, bound, start, k, acc,
                                                val, bound),
                 'F36:bounded-release-test-and-post-not-atomic')
        return _finish(env, v, ('relrace', acc, val))


# ---- (b) Condition ----------------------------------------------------------
def _run_cond(cfg, prefix):
    env = Env(prefix)
    with vos.fresh(env.sched):
        shared = cfg['shared']
        cond = CTX.Condition(CTX.Lock() if cfg.get('plainlock') else None)
        waiters = cfg['waiters']            # list of timeout or None
        notifiers = cfg['notifiers']        # list of scripts ['n','a',...]
        log = env.log
        inwait = set()

        def waiter(i, t, c):
            def run():
                with c:
                    inwait.add(i)
                    env.ev('w_enter', i)
                    r = c.wait(t)
                    inwait.discard(i)
                    env.ev('w_ret', i, r)
                return r
            return run

        def notifier(j, script, c):
            def run():
                for op in script:
                    with c:
                        env.ev('n_begin', j, op, tuple(sorted(inwait)))
                        if op == 'n':
                            c.notify()
                        else:
                            c.notify_all()
                        env.ev('n_end', j, op)
                return 'ok'
            return run
        for i, t in enumerate(waiters):
            env.spawn(waiter(i, t, env.copy_for(cond, shared)), 'W%d' % i,
                      shared)
        for j, sc in enumerate(notifiers):
            env.spawn(notifier(j, sc, env.copy_for(cond, shared)), 'N%d' % j,
                      shared)
        env.sched.run()
        v = _cond_oracle(env, cond, waiters, notifiers)
        if v is None and env.sched.status == 'done':
            v = _cond_probe(env, cond, shared)
        rets = tuple(e[2] for e in sorted(
            (e for e in log if e[0] == 'w_ret'), key=lambda e: e[1]))
        order = tuple(e[0][0] + str(e[1]) for e in log)
        return _finish(env, v, ('cond', env.sched.status, rets, order))


def _cond_oracle(env, cond, waiters, notifiers):
    log = env.log
    status = env.sched.status
    idx = {}
    for k, e in enumerate(log):
        idx.setdefault((e[0], e[1]), []).append(k)
    n_begin = [(k, e) for k, e in enumerate(log) if e[0] == 'n_begin']
    n_end = [k for k, e in enumerate(log) if e[0] == 'n_end']
    # every notify / notify_all call terminates
    if len(n_end) != sum(len(s) for s in notifiers) and \
            status in ('done', 'deadlock'):
        return ('a notifier is stuck inside notify/notify_all (%s): %r'
                % (status, env.sched.describe()))
    granted = 0
    for k, e in n_begin:
        granted += 1 if e[2] == 'n' else len(e[3])
    trues = 0
    for i, t in enumerate(waiters):
        ent = idx.get(('w_enter', i))
        ret = idx.get(('w_ret', i))
        if not ent:
            continue
        ent = ent[0]
        r = log[ret[0]][2] if ret else None
        later_all = [k for k, e in n_begin if k > ent and e[2] == 'a'
                     and i in e[3]]
        sole = [k for k, e in n_begin if k > ent and e[2] == 'n'
                and e[3] == (i,)]
        if t is None:
            if (later_all or sole) and r is not True:
                return ('lost wake-up: untimed waiter %d was waiting when %s '
                        'began but %s' % (
                            i, 'notify_all' if later_all else 'notify',
                            'never returned' if ret is None
                            else 'returned %r' % (r,)))
        if ret is not None:
            if r is True:
                trues += 1
                between = [k for k, e in n_begin if ent < k < ret[0]]
                if not between:
                    return ('spurious wake-up: waiter %d returned True with '
                            'no notification since it started waiting' % i)
            elif r is False:
                if t is None:
                    return 'untimed waiter %d returned False' % i
                if log[ret[0]][3] - log[ent][2] < t - 1e-9:
                    return ('waiter %d timed out after %.3f < %.3f' % (
                        i, log[ret[0]][3] - log[ent][2], t))
            else:
                return 'wait returned %r' % (r,)
    if trues > granted:
        return ('%d waiters returned True but the notifications could wake '
                'at most %d' % (trues, granted))
    if status == 'done':
        sl = cond._sleeping_count._semlock._get_value()
        wk = cond._woken_count._semlock._get_value()
        ws = cond._wait_semaphore._semlock._get_value()
        if sl - wk != 0 or ws != 0:
            return ('condition left inconsistent: sleeping=%d woken=%d '
                    'wait_semaphore=%d with nobody waiting' % (sl, wk, ws))
    return None


def _cond_probe(env, cond, shared):
    """After the explored part quiesced: later notifications are neither
    lost nor double counted (default schedule, no further branching)."""
    env.sched.choices = vs.Choices()
    res = {}
    c1 = env.copy_for(cond, shared)

    def lone():
        with c1:
            res['lone'] = c1.wait(0.5)
    env.spawn(lone, 'P0', shared)
    env.sched.run()
    if res.get('lone') is not False:
        return ('stale notification: a timed wait after quiescence returned '
                '%r without any notify' % (res.get('lone'),))
    c2, c3 = env.copy_for(cond, shared), env.copy_for(cond, shared)
    flag = []

    def w():
        with c2:
            flag.append(1)
            res['w'] = c2.wait(None)

    def n():
        while not flag:
            env.sched.point('spin-wait-for-waiter', None, lambda: bool(flag))
        with c3:
            c3.notify()
    env.spawn(w, 'P1', shared)
    env.spawn(n, 'P2', shared)
    env.sched.run()
    if res.get('w') is not True:
        return ('lost notification after quiescence: waiter got %r (%s)' % (
            res.get('w'), env.sched.status))
    return None


# ---- (c) Event --------------------------------------------------------------
def _run_event(cfg, prefix):
    env = Env(prefix)
    with vos.fresh(env.sched):
        shared = cfg['shared']
        evt = CTX.Event()
        state = {'set': False}

        def actor(j, script, e):
            def run():
                out = []
                for op in script:
                    if op == 'set':
                        env.ev('set_begin', j)
                        e.set()
                        env.ev('set_end', j)
                    elif op == 'clear':
                        env.ev('clear_begin', j)
                        e.clear()
                        env.ev('clear_end', j)
                    elif op == 'is_set':
                        env.ev('is_begin', j)
                        r = e.is_set()
                        env.ev('is_end', j, r)
                        out.append(r)
                    else:
                        t = op[1]
                        env.ev('wait_begin', j, t)
                        r = e.wait(t)
                        env.ev('wait_end', j, r, t)
                        out.append(r)
                return tuple(out)
            return run
        for j, sc in enumerate(cfg['actors']):
            env.spawn(actor(j, sc, env.copy_for(evt, shared)), 'A%d' % j,
                      shared)
        env.sched.run()
        v = _event_oracle(env, cfg)
        res = tuple(t.result for t in env.sched.threads)
        return _finish(env, v, ('event', env.sched.status, res))


def _event_oracle(env, cfg):
    """The recorded history must be a history of an atomic flag: there is an
    order of the operations' effect points, each inside its call interval,
    in which is_set returns the flag, a wait that returned True saw it set
    at some point of its interval, and a wait that returned False (or never
    returned) took effect at some point of its call after which the flag was
    not set again before the deadline (for ever).  An untimed wait never
    returns False and a timed one not before its deadline."""
    log = env.log
    status = env.sched.status
    INF = len(log) + 10
    open_ = {}
    ops = []          # (kind, begin, end, extra)
    for k, e in enumerate(log):
        tag = e[0]
        if tag.endswith('_begin'):
            open_[(tag[:-6], e[1])] = (k, e)
        elif tag.endswith('_end'):
            kind = tag[:-4]
            kb, eb = open_.pop((kind, e[1]))
            if kind == 'wait':
                r, t = e[2], e[3]
                if r not in (True, False):
                    return 'Event.wait returned %r' % (r,)
                if r is False:
                    if t is None:
                        return 'untimed Event.wait returned False'
                    elif e[-1] - eb[-1] < t - 1e-9:
                        return 'Event.wait(%.2f) gave up after %.3f' % (
                            t, e[-1] - eb[-1])
                if r:
                    ops.append(('wT', kb, k, None))
                else:
                    # the interval that must be free of set(): begin ..
                    # deadline (first log entry at or after it)
                    kd = k
                    if t is not None:
                        for q in range(kb + 1, k + 1):
                            if log[q][-1] >= eb[-1] + t - 1e-9:
                                kd = q
                                break
                    ops.append(('wF', kb, kd, (e[1], t)))
            elif kind == 'is':
                if e[2] not in (True, False):
                    return 'is_set returned %r' % (e[2],)
                ops.append(('is', kb, k, e[2]))
            else:
                ops.append((kind, kb, k, None))
    pending_other = []
    if status in ('done', 'deadlock'):
        for (kind, j), (kb, eb) in open_.items():
            if kind == 'wait':
                if eb[2] is not None:
                    return 'timed Event.wait of actor %d never returned' % j
                ops.append(('wF', kb, INF, (j, None)))
            else:
                pending_other.append((kind, j))
    if status == 'deadlock' and (pending_other or not open_):
        return 'deadlock outside wait: %r' % (env.sched.describe(),)
    # instantaneous events: (kind, lo, hi, extra, link)
    evs = []
    for i, (kind, kb, ke, x) in enumerate(ops):
        if kind == 'wF':
            # the call may take effect (first look at the flag) anywhere
            # between its begin and its end
            evs.append(('wb', kb, ke, i))
            evs.append(('we', ke, ke, i))
        else:
            evs.append((kind, kb, ke, x))
    n = len(evs)
    if n > 12:
        return None

    def search(placed, flag, openw):
        if len(placed) == n:
            return True
        rest = [i for i in range(n) if i not in placed]
        lim = min(evs[i][2] for i in rest)      # someone must be placed
        for i in rest:                          # before any event starting
            kind, lo, hi, x = evs[i]            # after ``lim``
            if lo > lim:
                continue
            f, ow = flag, openw
            if kind == 'set':
                if openw:
                    continue
                f = True
            elif kind == 'clear':
                f = False
            elif kind == 'is':
                if x != flag:
                    continue
            elif kind == 'wT':
                if not flag:
                    continue
            elif kind == 'wb':
                if flag:
                    continue
                ow = openw + 1
            elif kind == 'we':
                if not any(evs[q][0] == 'wb' and evs[q][3] == x
                           for q in placed):
                    continue
                ow = openw - 1
            if search(placed | {i}, f, ow):
                return True
        return False
    if not search(frozenset(), False, 0):
        hist = [(k_, lo, hi) for k_, lo, hi, _ in evs]
        bad = [o for o in ops if o[0] == 'wF']
        why = ''
        if any(o[2] == INF for o in bad):
            why = ' (a waiter never returned)'
        return ('Event history is not a history of an atomic flag%s: no '
                'order of effect points inside the call intervals explains '
                'the results: %r' % (why, [
                    (o[0], o[1], o[2] if o[2] != INF else 'never', o[3])
                    for o in ops]))
    return None


# ------------------------------------------------------------------- driver
def make_runner(cfg):
    fn = _mk(cfg)
    return lambda prefix, expect=None: fn(cfg, prefix)


def _explore_cfg(arg):
    cfg, bound, cap = arg
    import time
    # wall-clock guard per configuration: a cap is reported as a cap
    st = explore.dfs(make_runner(cfg), bound, max_execs=cap,
                     deadline=time.time() + 120)
    return st.as_dict()


def configs(tier):
    thorough = tier == 'thorough'
    out = []
    # (a) mutual exclusion under blocking acquire
    for typ, n in (('Lock', 1), ('RLock', 1), ('Semaphore', 1),
                   ('Semaphore', 2), ('BoundedSemaphore', 2)):
        for shared in (True, False):
            out.append((dict(kind='mutex', type=typ, n=n, threads=3,
                             rounds=1, shared=shared), 2, None))
            out.append((dict(kind='mutex', type=typ, n=n, threads=2,
                             rounds=2, shared=shared), 3 if thorough else 2,
                        None))
    # (a) histories of non-blocking ops from two processes
    ops = [(w, o) for w in (0, 1) for o in ('acq', 'rel')]
    depth = 6 if thorough else 5
    for typ, n in (('Lock', 1), ('RLock', 1), ('Semaphore', 0),
                   ('Semaphore', 2), ('BoundedSemaphore', 1),
                   ('BoundedSemaphore', 2)):
        for d in range(1, depth + 1):
            for seq in itertools.product(ops, repeat=d):
                out.append((dict(kind='overrelease', type=typ, n=n,
                                 seq=list(seq)), 0, None))
    # (a) concurrent releases near the bound, from different processes
    for typ, n, start in (('BoundedSemaphore', 2, 1), ('BoundedSemaphore', 2, 0),
                          ('BoundedSemaphore', 1, 0), ('Lock', 1, 0),
                          ('BoundedSemaphore', 2, 2)):
        for k in (2, 3):
            out.append((dict(kind='relrace', type=typ, n=n, start=start,
                             procs=k), 2, None))
    # (b) Condition
    TO = 1.0
    wsets = [[None], [TO], [None, None], [None, TO], [TO, TO]]
    if thorough:
        wsets += [[None, None, None], [None, None, TO], [None, TO, TO]]
    scripts = [[['n']], [['a']], [['n', 'n']], [['a', 'n']], [['n', 'a']],
               [['n'], ['n']], [['a'], ['n']]]
    if thorough:
        scripts += [[['a', 'a']], [['a'], ['a']], [['n', 'n', 'n']]]
    for ws in wsets:
        for sc in scripts:
            for shared in (True, False):
                nthreads = len(ws) + len(sc)
                b = 2 if nthreads <= 3 else (2 if thorough else 1)
                if thorough and nthreads <= 3:
                    b = 3
                out.append((dict(kind='cond', waiters=ws, notifiers=sc,
                                 shared=shared), b, None))
    # (c) Event
    W, WT = ('wait', None), ('wait', TO)
    acts = [[[W], ['set']], [[WT], ['set']], [[W], ['set'], ['is_set']],
            [[W, 'is_set'], ['set']], [[W], [WT], ['set']],
            [[WT], ['set', 'clear']], [[W], ['set', 'clear', 'set']],
            [['is_set', W], ['set', 'is_set']], [[WT], ['is_set']],
            [[W], ['set'], ['set']]]
    if thorough:
        acts += [[[W], [W], [WT], ['set']], [[WT, WT], ['set']],
                 [[W], ['clear', 'set']], [[WT], ['clear'], ['set']]]
    for ac in acts:
        for shared in (True, False):
            out.append((dict(kind='event', actors=ac, shared=shared),
                        3 if thorough and len(ac) <= 2 else 2, None))
    return out


def main(tier, seed):
    rep = report.Report('C17', tier, seed)
    cfgs = configs(tier)
    import random
    order = list(range(len(cfgs)))
    random.Random(seed).shuffle(order)
    res = par.pmap('harness.c17:_explore_cfg', [cfgs[i] for i in order],
                   chunksize=max(1, len(cfgs) // (par.NPROC * 8)))
    by_kind = {}
    for i, d in zip(order, res):
        cfg, bound, _ = cfgs[i]
        st = by_kind.setdefault(cfg['kind'], explore.Stats())
        st.merge(d)
        st.__dict__.setdefault('configs', 0)
        st.configs += 1
        for ch, msg in d['violations']:
            sig = None
            if isinstance(msg, (tuple, list)):
                msg, sig = msg
            rep.violation('%s\nconfig=%r' % (msg, cfg),
                          dict(harness='c17', config=cfg, choices=ch),
                          signature=sig)
    for kind in sorted(by_kind):
        st = by_kind[kind]
        rep.stats(kind, st, configs=st.configs)
    from harness import envconf
    n = envconf.semlock_conformance(4 if tier == 'quick' else 5)
    rep.part('semlock-conformance', validated=n, evaluations=n,
             outcomes=['agree'])
    rep.assume('VSemLock models a POSIX semaphore plus the per-object '
               'count/last_tid of _multiprocessing.SemLock; conformance '
               'replayed against the real SemLock for non-blocking histories',
               'blocking semantics of sem_wait are trusted',
               'preemption bounds per configuration are listed in '
               'coverage.parts')
    return rep.finish()


def replay(rp):
    x = make_runner(rp['config'])(rp['choices'])
    for e in x.log:
        print(e)
    print('status', x.status, 'outcome', x.outcome)
    print('violation:', x.violation)
    return 1 if x.violation else 0
