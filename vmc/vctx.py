"""A billiard context whose kernel objects are virtual.  Importing this module
installs the virtual OS and then imports billiard."""
import io

from . import vos
vos.install()

import billiard                                   # noqa: E402
from billiard import context as bctx              # noqa: E402
from billiard import process as bprocess          # noqa: E402
from billiard import reduction                    # noqa: E402
from billiard import util as butil                # noqa: E402
vos.bind_billiard()

# ``Connection._read = os.read`` is a builtin in the real world and therefore
# does not bind ``self`` when reached through an instance; the virtual
# replacements are Python functions and would.
from billiard import connection as _bconn         # noqa: E402
for _n in ('_read', '_write'):
    _f = _bconn.Connection.__dict__.get(_n)
    if _f is not None and not isinstance(_f, staticmethod):
        setattr(_bconn.Connection, _n, staticmethod(_f))

import logging as _logging                        # noqa: E402
_lg = butil.get_logger()
_lg.addHandler(_logging.NullHandler())
_lg.propagate = False


class VDupFd:
    """What ``reduction.DupFd`` returns while a virtual child is spawned."""

    def __init__(self, fd):
        self.fd = fd

    def detach(self):
        return vos.v_dup(self.fd)


class _ClonePopen:
    """Stands in for the spawning Popen while an object is copied 'into'
    another virtual process."""
    method = 'fork'
    DupFd = VDupFd

    def duplicate_for_child(self, fd):
        return fd


def dumps_for_child(obj):
    buf = io.BytesIO()
    prev = bctx.get_spawning_popen()
    bctx.set_spawning_popen(_ClonePopen())
    try:
        reduction.dump(obj, buf)
    finally:
        bctx.set_spawning_popen(prev)
    return buf.getvalue()


def loads_in_child(data):
    import pickle
    return pickle.loads(data)


def clone(obj, pid=None):
    """The copy of ``obj`` another virtual process would hold: made with
    billiard's own spawn pickling (``__getstate__`` / ``_rebuild`` / DupFd),
    so it has its own Python objects over the same kernel objects."""
    data = dumps_for_child(obj)
    if pid is None:
        return loads_in_child(data)
    with vos.as_process(pid):
        return loads_in_child(data)


class VContext(bctx.BaseContext):
    _name = 'fork'
    Process = bprocess.BaseProcess          # replaced by vproc when needed

    def get_context(self, method=None):
        return self

    def get_start_method(self, allow_none=False):
        return 'fork'


_fin_keep = set(butil._finalizer_registry)


def mark_globals():
    """Remember which finalizers exist now (they belong to the checker's own
    interpreter -- billiard shares the stdlib multiprocessing registry)."""
    _fin_keep.update(butil._finalizer_registry)


def reset_billiard_globals():
    """Undo what an execution leaves in billiard's module state.  Only
    finalizers registered since import / mark_globals() are dropped."""
    import itertools
    bprocess._children.clear()
    for k in [k for k in list(butil._finalizer_registry)
              if k not in _fin_keep]:
        butil._finalizer_registry.pop(k, None)
    try:
        import billiard.pool as bp
        bp.job_counter = itertools.count()
    except Exception:
        pass
