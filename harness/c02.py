"""C02 -- results equal the sequential computation: value, order, exception.
L2 engine over *completion orders*: the real chunking code (_map_async,
_get_tasks, mapstar, starmapstar, MapResult._set, IMapIterator._set /
_set_length / next, TaskHandler.body's length announcement) with every order
in which chunks are run, acknowledged and delivered, every position of the
length announcement and every position of the consumer's next() calls."""
from vmc import vctx  # noqa: F401
from harness import c01
import billiard.pool as bp
from billiard.einfo import ExceptionInfo, RemoteTraceback


def _exc_ok(einfo_or_exc, exp, fname):
    """The failure carries the original exception: same type and args, and
    the remote traceback naming the function."""
    typ, args = exp
    exc = einfo_or_exc
    if isinstance(exc, ExceptionInfo):
        if exc.type is not typ:
            return 'record type %r, expected %r' % (exc.type, typ)
        if fname not in exc.traceback:
            return 'traceback text does not name %s' % fname
        exc = exc.exception
        exc = getattr(exc, 'exc', exc)
    if type(exc) is not typ or exc.args != args:
        return 'raised %r, the function raises %s%r' % (exc, typ.__name__, args)
    return None


def final(env):
    un = env.unresolved()
    if un:
        return 'job %d never completes (no faults were injected)' % un[0]
    for j, rec in enumerate(env.jobs):
        h, t, kind = rec['h'], rec['t'], rec['kind']
        fname = t.get('fn', 'ok')
        if kind == 'apply':
            exp = rec['expect']
            try:
                got = (True, h.get(timeout=0))
            except Exception as exc:
                got = (False, exc)
            if exp[0]:
                if got != exp:
                    return 'apply gave %r, the function returns %r' % (got, exp)
            else:
                if got[0]:
                    return 'apply returned %r, the function raises' % (got[1],)
                m = _exc_ok(got[1], exp[1], fname)
                if m:
                    return 'apply: ' + m
                c = getattr(got[1], '__cause__', None)
                if not isinstance(c, RemoteTraceback) or fname not in str(c):
                    return ('apply re-raised without the remote traceback '
                            'naming %s (cause %r)' % (fname, c))
        elif kind in ('map', 'starmap'):
            exps = rec['expect_items']
            try:
                got = (True, h.get(timeout=0))
            except Exception as exc:
                got = (False, exc)
            if all(e[0] for e in exps):
                want = [e[1] for e in exps]
                if got != (True, want):
                    return '%s gave %r, sequential map gives %r' % (
                        kind, got, want)
                if list(map(type, got[1])) != list(map(type, want)):
                    return 'element types changed: %r' % (got[1],)
            else:
                if got[0]:
                    return '%s returned %r although an input raises' % (
                        kind, got[1])
                own = [e[1] for e in exps if not e[0]]
                if not any(_exc_ok(got[1], e, fname) is None for e in own):
                    return ('%s raised %r, not an error of one of its own '
                            'inputs %r' % (kind, got[1], own))
                c = getattr(got[1], '__cause__', None)
                if not isinstance(c, RemoteTraceback) or fname not in str(c):
                    return '%s re-raised without the remote traceback' % kind
            cbs = [c[0] for c in env.cb[j]]
            if cbs.count('ok') + cbs.count('err') > 1:
                return '%s callbacks fired %r' % (kind, cbs)
        else:
            exps = rec['expect_items']
            iter_k = None
            if rec.get('iter_raises'):
                # the input iterable itself fails at position k: the items
                # before it, then that error, then the end
                iter_k = min(t['iter_raise_at'], len(exps))
                exps = exps[:iter_k] + [(False, (RuntimeError, (
                    'iterable failed at %d' % t['iter_raise_at'],)))]
            got = list(rec['nexts'])
            if 'gen' in rec:
                # chunked: a generator over chunks (Python ends it at the
                # first exception): items before the failing chunk in order,
                # then an error carrying the record
                vals = []
                err = None
                try:
                    for v in rec['gen']:
                        vals.append(v)
                except Exception as exc:
                    err = exc
                cs = t['chunksize']
                bad = [i for i, e in enumerate(exps) if not e[0]]
                if not bad:
                    want = [e[1] for e in exps]
                    if kind == 'imap' and vals != want:
                        return 'chunked imap yielded %r, expected %r' % (
                            vals, want)
                    if kind != 'imap' and sorted(map(repr, vals)) != \
                            sorted(map(repr, want)):
                        return 'chunked imap_unordered yielded %r' % (vals,)
                    if err:
                        return 'chunked %s raised %r' % (kind, err)
                else:
                    if err is None:
                        return 'chunked %s swallowed the error' % kind
                    a = err.args[0] if err.args else None
                    if not isinstance(a, ExceptionInfo):
                        return 'error does not carry the record: %r' % (err,)
                    if kind == 'imap':
                        first = (bad[0] // cs) * cs
                        if vals != [e[1] for e in exps[:first]]:
                            return ('chunked imap yielded %r before the '
                                    'failing chunk, expected %r' % (
                                        vals, [e[1] for e in exps[:first]]))
                continue
            while True:
                try:
                    got.append(('val', h.next(timeout=0)))
                except StopIteration:
                    got.append(('stop',))
                    break
                except Exception as exc:
                    if type(exc).__name__ == 'TimeoutError':
                        return '%s: next() pending after everything ran' % kind
                    got.append(('errobj', exc))
            seq = [g for g in got if g[0] in ('val', 'err', 'errobj')]
            if len(seq) != len(exps):
                return '%s yielded %d items for %d inputs: %r' % (
                    kind, len(seq), len(exps), seq)
            if kind == 'imap':
                for i, (g, e) in enumerate(zip(seq, exps)):
                    if e[0]:
                        if g != ('val', e[1]):
                            return 'imap item %d is %r, expected %r' % (
                                i, g, e[1])
                    else:
                        if g[0] == 'val':
                            return 'imap item %d should raise' % i
                        if g[0] == 'errobj':
                            a = g[1].args[0] if g[1].args else None
                            if not isinstance(a, ExceptionInfo):
                                return ('imap error at %d does not carry the '
                                        'exception record: %r' % (i, g[1]))
                            m = _exc_ok(a, e[1],
                                        'gen' if i == iter_k else fname)
                            if m:
                                return 'imap item %d: %s' % (i, m)
                        elif g[1] is not e[1][0]:
                            return 'imap item %d raised %r' % (i, g[1])
            else:
                want = sorted(repr(e[1]) if e[0] else 'E' for e in exps)
                have = sorted(repr(g[1]) if g[0] == 'val' else 'E'
                              for g in seq)
                if want != have:
                    return 'imap_unordered yielded %r, expected %r' % (
                        have, want)
    return None


def oracle(env, ev):
    # empty input: empty result, ready at once
    if ev and ev[0] == 'submit':
        rec = env.jobs[-1]
        if rec['kind'] in ('map', 'starmap') and not rec['t']['items']:
            h = rec['h']
            if not h.ready() or h._value != []:
                return 'map of an empty input is not ready with []'
    return None


def configs(tier):
    T = tier == 'thorough'
    out = []
    A = dict(die=(), put_faults=(), max_adv=0, next=True)
    lengths = [0, 1, 2, 3] + ([4, 5] if T else [])
    d = 40
    ms = 40000 if not T else 400000
    for procs in (1, 2, 3):
        for n in lengths:
            items = list(range(n))
            css = [None, 1, 2] + ([3, n, n + 1] if T else [])
            for cs in sorted(set(c for c in css if c is None or c >= 1),
                             key=lambda c: (c is None, c)):
                if procs != 2 and n > 3:
                    continue
                nchunks = n if cs is None else -(-n // cs)
                if nchunks > (4 if T else 3):
                    continue
                out.append(dict(name='map/n%d/cs%s/p%d' % (n, cs, procs),
                                procs=procs, jobs=[dict(
                                    kind='map', fn='typed', items=items,
                                    chunksize=cs)]))
                if n == 3 and procs == 2:
                    # the input as other kinds of iterable
                    for cont in ('deque', 'seq', 'gen'):
                        out.append(dict(
                            name='map-%s/n%d/cs%s' % (cont, n, cs),
                            procs=procs, jobs=[dict(
                                kind='map', fn='typed', items=items,
                                chunksize=cs, container=cont)]))
                if n and procs == 2:
                    for k in range(n) if T else (0, n - 1):
                        out.append(dict(
                            name='map-raise@%d/n%d/cs%s' % (k, n, cs),
                            procs=procs, jobs=[dict(
                                kind='map', fn='raise_if', partial=k,
                                items=items, chunksize=cs)]))
                if procs == 2 and cs in (None, 2):
                    out.append(dict(
                        name='starmap/n%d/cs%s' % (n, cs), procs=procs,
                        jobs=[dict(kind='starmap', fn='pair_sum',
                                   items=[(i, 10 * i) for i in items],
                                   chunksize=cs)]))
            if n > (3 if not T else 4):
                continue
            for kind in ('imap', 'imap_unordered'):
                out.append(dict(name='%s/n%d/p%d' % (kind, n, procs),
                                procs=procs,
                                jobs=[dict(kind=kind, fn='typed',
                                           items=items)]))
                if n and procs == 2:
                    for k in sorted({0, n - 1}):
                        out.append(dict(
                            name='%s-raise@%d/n%d' % (kind, k, n),
                            procs=procs, jobs=[dict(
                                kind=kind, fn='raise_if', partial=k,
                                items=items)]))
                    if n >= 2:
                        out.append(dict(
                            name='%s/n%d/cs2' % (kind, n), procs=procs,
                            jobs=[dict(kind=kind, fn='typed', items=items,
                                       chunksize=2)]))
                        out.append(dict(
                            name='%s-raise@%d/n%d/cs2' % (kind, n - 1, n),
                            procs=procs, jobs=[dict(
                                kind=kind, fn='raise_if', partial=n - 1,
                                items=items, chunksize=2)]))
    for kind in ('imap', 'imap_unordered'):
        out.append(dict(name='map-then-empty-%s' % kind, procs=2, jobs=[
            dict(kind='map', fn='typed', items=[0, 1], chunksize=1),
            dict(kind=kind, fn='typed', items=[])]))
        out.append(dict(name='%s-then-%s' % (kind, kind), procs=2, jobs=[
            dict(kind=kind, fn='typed', items=[0, 1]),
            dict(kind=kind, fn='typed', items=[5])]))
    # an input iterable that fails: before its first item (while an earlier
    # map is still running) and after one item
    for kind in ('imap', 'imap_unordered'):
        out.append(dict(name='map-then-%s-iterable-fails@0' % kind, procs=2,
                        jobs=[dict(kind='map', fn='typed', items=[0, 1],
                                   chunksize=1),
                              dict(kind=kind, fn='typed', items=[3, 4],
                                   iter_raise_at=0)]))
        out.append(dict(name='%s-iterable-fails@1' % kind, procs=2,
                        jobs=[dict(kind=kind, fn='typed', items=[3, 4],
                                   iter_raise_at=1)]))
    out.append(dict(name='apply/ok+boom+none', procs=2, jobs=[
        dict(kind='apply', fn='typed', arg=5, tq=True),
        dict(kind='apply', fn='boom', arg=7, tq=True),
        dict(kind='apply', fn='none', arg=1)]))
    for c in out:
        c.update(pool={}, alphabet=A, depth=d, max_states=ms,
                 final='harness.c02:final', oracle='harness.c02:oracle')
    return out


def main(tier, seed, only=None):
    from harness import l2run

    def extra(rep):
        from harness import c02_threads
        c02_threads.part(rep, tier)
    return l2run.run('C02', tier, seed, configs(tier), [
        'no faults: deaths, time limits and failed sends are other '
        'properties'], only, extra)


def replay(rp):
    if rp.get('harness') == 'c02-threads':
        from harness import c02_threads
        return c02_threads.replay(rp)
    from harness import l2run
    return l2run.replay('C02', rp, configs('thorough') + configs('quick'))
