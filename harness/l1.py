"""L1 -- the real ``billiard.pool.Worker`` alone, against WorkerSpec.

The real ``Worker.__call__ / workloop / _do_exit`` run as the main vthread of
a virtual process over real ``SimpleQueue``s (virtual pipes + semaphores); the
harness plays the parent: it feeds tasks, answers the handshake, consumes
results, and injects one fault (termination signal, soft-limit signal, abrupt
death) at *every* scheduling point of the fault-free run -- every virtual-OS
call and, in the thorough tier, every source line of the worker code.
"""
import collections
import itertools
import signal

from vmc import vctx, vos, vproc, vthreading, linepoints, sched as vs
from vmc.vos import MAIN_PID

vproc.bind()

import billiard.pool as bp                        # noqa: E402
from billiard import exceptions as bexc           # noqa: E402
from billiard.einfo import ExceptionInfo          # noqa: E402
from harness import tasks                         # noqa: E402
from harness.l2 import _frames                    # noqa: E402

import billiard.queues as bqueues  # noqa: E402

ACK, READY, TASK, NACK, DEATH = bp.ACK, bp.READY, bp.TASK, bp.NACK, bp.DEATH
SOFT = bp.SIG_SOFT_TIMEOUT
EXITS = []              # (pid, status) passed to the exit callback
LOOP_STARTED = set()    # virtual pids whose workloop has been entered
_orig_workloop = bp.Worker.workloop


LOOP_ENDED = set()      # ... and left again (the worker is on its way out)


def _workloop_flagged(self, *a, **kw):
    LOOP_STARTED.add(vos.cur_pid())
    try:
        return _orig_workloop(self, *a, **kw)
    finally:
        LOOP_ENDED.add(vos.cur_pid())


_WORKER_CODES = None


def worker_codes():
    """Code objects of the real Worker (the flagging wrapper excluded)."""
    global _WORKER_CODES
    if _WORKER_CODES is None:
        saved = bp.Worker.workloop
        bp.Worker.workloop = _orig_workloop
        try:
            _WORKER_CODES = linepoints.codes_of(bp.Worker)
        finally:
            bp.Worker.workloop = saved
    return _WORKER_CODES


bp.Worker.workloop = _workloop_flagged


def on_exit_cb(pid, status):
    w = vos.world()
    p = w.procs.get(vos.cur_pid()) if w is not None else None
    if p is None or p.state != 'running':
        return      # code unwinding in an already dead virtual process
    EXITS.append((pid, status))


# task alphabet: name -> (callable, in-task points, outcome class)
TASKS = {
    'ok': tasks.work, 'raise': tasks.work_raise, 'base': tasks.work_base,
    'unpicklable': tasks.work_unpicklable, 'catch': tasks.work_catch_soft,
    'inexc': tasks.work_in_except, 'convert': tasks.work_convert,
    'swallow': tasks.work_swallow,
    'unpicklable_os': tasks.work_unpicklable_os,
    'unpicklable_value': tasks.work_unpicklable_value,
}


class Run:
    """One execution of the real worker under a scripted parent."""

    def __init__(self, cfg, inject=None, lines=False):
        self.cfg, self.inject, self.lines = cfg, inject, lines
        self.trace = []          # (step, op) of the worker's points
        self.fed = []            # tasks written to the worker
        self.syn = []            # handshake answers given

    def run(self):
        cfg = self.cfg
        del tasks.INVOKED[:]
        del EXITS[:]
        LOOP_STARTED.clear()
        LOOP_ENDED.clear()
        sched = vs.Scheduler(vs.Choices(), max_steps=100000)
        sched.intr_handler = vproc.run_pending_signals
        res = {}
        with vos.fresh(sched) as world:
            world.seq_horizon = world.now + 500
            vproc.launcher = vproc.run_child
            vos.deliver_signal = vproc.deliver_signal
            try:
                ctx = vproc.VPoolContext()
                inq, outq = ctx.SimpleQueue(), ctx.SimpleQueue()
                synq = ctx.SimpleQueue() if cfg.get('synack') else None
                if synq is not None and cfg.get('syn_late'):
                    synq = PollQueue(ctx=ctx.get_context())
                counter = ctx.Value('i')
                event = ctx.Event() if cfg.get('end') == 'event' else None
                init = {None: None, 'reset': tasks.init_reset_signals,
                        'own': tasks.init_own_handlers}[cfg.get('init')]
                mem_after = cfg.get('mem_after')
                if mem_after is not None:
                    # resident size as the worker reads it after each job:
                    # above the limit from the mem_after-th job on
                    bp.mem_rss = lambda: (
                        5000 if len(tasks.INVOKED) >= mem_after else 10)
                w = bp.Worker(inq, outq, synq, init, (), cfg.get('quota'),
                              event, on_exit_cb, True, True,
                              1000 if mem_after is not None else None,
                              counter)
                proc = ctx.Process(target=w)
                proc.daemon = True
                proc.start()
                pid = proc.pid
                vp = world.procs[pid]
                vt = vp.main_vt
                if self.lines:
                    linepoints.enable(worker_codes())
                    sched.linepoints = True
                try:
                    self._drive(world, sched, vt, vp, inq, outq, synq,
                                counter, event)
                finally:
                    sched.linepoints = False
                    if self.lines:
                        linepoints.disable()
                ob = world.fds[outq._reader.fileno()][0].rbuf
                ob.data[:0] = self.drained      # what the parent had read
                msgs = _frames(ob)
                res = dict(pid=pid, status=vp.status, state=vp.state,
                           msgs=msgs, invoked=list(tasks.INVOKED),
                           exits=list(EXITS), counter=counter.get_obj().value,
                           points=len(self.trace), trace=self.trace,
                           fed=self.fed, inject_at=self.injected_at,
                           unread=len(_frames(
                               world.fds[inq._reader.fileno()][0].rbuf)),
                           now=world.now, exc=repr(vt.exc) if vt.exc else None,
                           t_injected=self.t_injected,
                           phase_at_inject=self.phase_at_inject,
                           guard_sleeps=self.guard_sleeps,
                           handler_installed=self.handler_installed,
                           parent_blocked=self.parent_blocked,
                           loop_started=self.loop_started,
                           loop_ended=self.loop_ended)
            finally:
                bp.mem_rss = _REAL_MEM_RSS
                vproc.launcher = None
                vctx.reset_billiard_globals()
        return res

    def _drive(self, world, sched, vt, vp, inq, outq, synq, counter, event):
        cfg = self.cfg
        script = list(cfg['tasks'])
        inbuf = world.fds[inq._reader.fileno()][0].rbuf
        synbuf = world.fds[synq._reader.fileno()][0].rbuf if synq else None
        outbuf = world.fds[outq._reader.fileno()][0].rbuf
        self.ended = False
        self.drained = b''
        self.parent_blocked = None
        self.injected_at = None
        self.loop_started = False
        self.loop_ended = False
        self.handler_installed = False
        self.t_injected = None
        self.phase_at_inject = None
        self.guard_sleeps = 0
        self.syn_polls = 0
        step = 0
        while vt.state == 'parked':
            p = vt.pending
            if self.inject is not None and self.inject[0] == step and \
                    self.injected_at is None:
                self.injected_at = (step, p.op)
                self.handler_installed = callable(
                    vp.handlers.get(self.inject[1]))
                self.loop_started = vp.pid in LOOP_STARTED
                self.loop_ended = vp.pid in LOOP_ENDED
                self.t_injected = world.now
                self.phase_at_inject = self._phase(outbuf, len(self.fed))
                vos.v_kill(vp.pid, self.inject[1])
                if vp.state != 'running':
                    sched.reap(vt)
                    break
            try:
                stop = self._parent(world, vt, p, script, inq, synq, counter,
                                    event, inbuf, synbuf, outbuf)
            except vos.WouldBlock as exc:
                # the worker leaked a lock the parent needs
                self.parent_blocked = str(exc)
                break
            if stop:
                break
            self.trace.append(p.op if p.op != 'line' else
                              'line:%s' % (p.obj,))
            sched.step(vt)
            step += 1
            if step > 50000:
                raise vs.HarnessError('worker does not terminate')

    def _parent(self, world, vt, p, script, inq, synq, counter, event, inbuf,
                synbuf, outbuf):
        cfg = self.cfg
        if True:
            if not (vt.killed or vt.intr):
                if p.op == 'read' and p.obj is inbuf and not inbuf.data:
                    nfed = len(self.fed)
                    if nfed < len(script):
                        name = script[nfed]
                        inq.put((TASK, (10 + nfed, None, TASKS[name],
                                        (nfed,), {})))
                        self.fed.append(name)
                        nfed += 1
                        if nfed == len(script) and event is not None:
                            event.set()
                    elif not self.ended:
                        self.ended = True
                        if cfg.get('end', 'sentinel') == 'sentinel':
                            inq.put(None)
                        elif cfg['end'] == 'eof':
                            inq._writer.close()
                        else:
                            inq.put(None)       # event: wake it up anyway
                    else:
                        return True             # blocked for good
                elif synbuf is not None and not synbuf.data and (
                        (p.op == 'read' and p.obj is synbuf) or
                        (p.op == 'poll' and any(
                            world.fds[fd][0].rbuf is synbuf
                            for fd in p.obj if fd in world.fds))):
                    k = len(self.syn)
                    late = cfg.get('syn_late', 0) if k == 0 else 0
                    if self.syn_polls < late:
                        # a parent that is slow to answer: the worker's
                        # one-second poll runs out, again and again
                        self.syn_polls += 1
                    else:
                        ans = cfg.get('syn', ())
                        a = ans[k] if k < len(ans) else 'ack'
                        self.syn.append(a)
                        synq.put((ACK if a == 'ack' else NACK, (0, 0, 0)))
                elif p.op == 'sleep' and vt.pending.deadline is not None:
                    # inside the consumption guard: the parent's policy
                    pol = cfg.get('consume', 'prompt')
                    sent = self._phase(outbuf, 0)[1]
                    if pol == 'prompt' or (pol == 'late' and
                                           self.guard_sleeps >= 3):
                        with counter.get_lock():
                            counter.value = sent
                    self.guard_sleeps += 1
                elif p.op == 'write' and p.obj is outbuf and \
                        not vt.is_enabled(world.now):
                    # result pipe full: the parent reads what is there
                    self.drained += bytes(outbuf.data)
                    del outbuf.data[:]
                elif not vt.is_enabled(world.now):
                    return True                 # deadlock: reported below
        return False

    def _phase(self, outbuf, nfed):
        class _B:
            data = self.drained + bytes(outbuf.data)
        ms = _frames(_B)
        return (sum(1 for m in ms if m and m[0] == ACK),
                sum(1 for m in ms if m and m[0] == READY), nfed)


_REAL_MEM_RSS = bp.mem_rss


class PollQueue(bqueues.SimpleQueue):
    """A queue object without the get_payload short cut (allowed by
    Worker._make_recv_method): the worker polls it with its one-second
    timeout instead of blocking in the read."""
    get_payload = None

    def get(self):
        with self._rlock:
            data = self._reader.recv_bytes()
        return bqueues.ForkingPickler.loads(data)


# ------------------------------------------------------------- WorkerSpec
def spec_check(cfg, r, inject):
    """The reference behaviour of one worker, checked on what it wrote,
    executed and how it ended."""
    msgs, pid = r['msgs'], r['pid']
    script = r['fed']
    quota = cfg.get('quota')
    synack = cfg.get('synack')
    syn = cfg.get('syn', ())
    if r['exc']:
        return 'worker vthread raised outside the process model: %s' % r['exc']
    sig = inject[1] if inject else None
    # ---- message stream: ACK first, then exactly one READY, per task
    cur = None
    readies = collections.Counter()
    acks = []
    deaths = []
    refused = set()
    order = []
    for m in msgs:
        if m is None:
            return 'worker wrote a sentinel to the result queue'
        typ, a = m
        if typ == ACK:
            job, i, t, wpid, fd = a
            if cur is not None and cur not in refused:
                if readies[cur] == 0:
                    return ('job %d accepted before the result of job %d '
                            'was sent' % (job, cur))
            if wpid != pid:
                return 'ACK carries pid %r, the process is %r' % (wpid, pid)
            if not (1000.0 <= t <= r['now'] + 1e-9):
                return 'ACK carries time %r outside the run' % (t,)
            idx = job - 10
            if synack and idx < len(acks) + 0 and False:
                pass
            acks.append(job)
            cur = job
            k = len(acks) - 1
            if synack and k < len(syn) and syn[k] == 'nack':
                refused.add(job)
        elif typ == READY:
            job, i, res, fd = a
            if cur != job:
                return 'READY for job %d while job %r is current' % (job, cur)
            readies[job] += 1
            if readies[job] > 1:
                return 'two results sent for job %d' % job
            if job in refused:
                return 'refused job %d produced a result' % job
            order.append((job, res[0]))
        elif typ == DEATH:
            deaths.append(a)
        else:
            return 'unknown message %r' % (m,)
    if acks != sorted(acks) or len(set(acks)) != len(acks):
        return 'jobs accepted out of order or twice: %r' % (acks,)
    # ---- execution: refused jobs never run; every run job was accepted
    ran = [10 + a for (_p, _n, a) in r['invoked']]
    for job in ran:
        if job in refused:
            return 'refused job %d was executed' % job
        if job not in acks:
            return 'job %d executed without being accepted first' % job
    if len(set(ran)) != len(ran):
        return 'a job was executed twice: %r' % (ran,)
    executed = len(ran)
    if quota is not None and executed > quota:
        return 'worker executed %d jobs, quota is %d' % (executed, quota)
    # ---- results describe what the task did
    for (job, ok) in order:
        name = script[job - 10]
        exp_ok = name in ('ok', 'catch', 'inexc', 'convert', 'swallow')
        soft_hit = sig == SOFT
        if ok != exp_ok and not soft_hit and sig is None:
            return 'job %d (%s) reported success=%r' % (job, name, ok)
    # ---- exit
    if inject is None:
        if r['state'] == 'running':
            return ('worker never exited (fed %r, end %r, unread %d, trace '
                    'tail %r, parent blocked %r, points %d)' % (
                        script, cfg.get('end', 'sentinel'), r['unread'],
                        r['trace'][-5:], r.get('parent_blocked'),
                        r['points']))
        n_ready = sum(readies.values())
        done_quota = quota is not None and executed >= quota
        mem_after = cfg.get('mem_after')
        if mem_after is not None and executed >= mem_after:
            done_quota = True            # left because of the memory limit
        if done_quota:
            if r['status'] != bp.EX_RECYCLE:
                return ('worker reached its quota of %r (memory limit after '
                        '%r jobs) and exited with %r instead of the recycle '
                        'status' % (quota, mem_after, r['status']))
            if cfg.get('consume', 'prompt') == 'never':
                if r['guard_sleeps'] < bp.GUARANTEE_MESSAGE_CONSUMPTION_RETRY_LIMIT:
                    return ('worker exited after %d waits although its '
                            'results were never consumed' % r['guard_sleeps'])
            elif r['counter'] < n_ready:
                return ('worker exited with the recycle status before its '
                        'results were consumed (%d of %d)' % (
                            r['counter'], n_ready))
        if len(r['exits']) != 1 or r['exits'][0][0] != pid:
            return 'exit callback calls: %r' % (r['exits'],)
        if len(deaths) != 1 or deaths[0][0] != pid:
            return 'death notices: %r' % (deaths,)
        not_refused = [j for j in acks if j not in refused]
        for j in not_refused:
            if readies[j] != 1:
                return 'job %d was accepted but %d results were sent' % (
                    j, readies[j])
        # reference: which of the scripted tasks run, in order
        want, n = [], 0
        for k, name in enumerate(cfg['tasks']):
            if quota is not None and n >= quota:
                break
            if cfg.get('mem_after') is not None and n >= cfg['mem_after']:
                break
            if synack and k < len(syn) and syn[k] == 'nack':
                continue                 # refused: not run, not counted
            want.append(10 + k)
            n += 1
        if cfg.get('end', 'sentinel') == 'event':
            # told to leave through the shutdown event: it need not read
            # what is still in the pipe, but every job it did take off the
            # pipe is announced, run and answered
            if r['unread'] == 0:
                want = [j for j in want if j - 10 < len(r['fed'])]
            else:
                want = ran
        if ran != want:
            return ('worker executed jobs %r, the reference worker (quota '
                    '%r, handshake answers %r) executes %r' % (
                        ran, quota, list(syn), want))
    return None


def term_check(cfg, r, inject):
    """After the termination signal at *any* point: no further job is taken,
    the exit callback runs once, the process exits."""
    if r['exc']:
        return 'worker vthread raised outside the process model: %s' % r['exc']
    step, op = r['inject_at'] or (None, None)
    if r['inject_at'] is None:
        return None                     # finished before the injection point
    if not r['loop_started']:
        # start-up (handlers not installed yet, or the job loop not entered
        # yet): the process simply ends; there is no task to stop and the
        # statement speaks about workers that take jobs
        if r['state'] == 'running':
            return 'process survived a termination signal during start-up'
        if [m for m in r['msgs'] if m and m[0] == ACK]:
            return 'a worker signalled during start-up still took a job'
        return None
    if not r['handler_installed'] or r['loop_ended']:
        # already on its way out by itself (job loop left; or the
        # disposition was reset by an earlier
        # signal, or the signal is ignored while the death notice is sent)
        if r['state'] == 'running':
            return ('an exiting worker did not exit after a '
                    'termination signal at point %d (%s)' % (step, op))
        if len(r['exits']) > 1:
            return 'exit callback ran %d times' % len(r['exits'])
        return None
    if r['state'] == 'running':
        sig = None
        if op == 'sem.acquire':
            # the handler's SystemExit surfaces inside SemLock.__enter__
            # after the semaphore was taken: ``with`` never releases it and
            # _do_exit blocks on the same lock
            sig = 'F15:signal-inside-lock-enter'
        return ('worker still running after the termination signal at point '
                '%d (%s): trace tail %r' % (step, op, r['trace'][-8:]), sig)
    acks_before, readies_before, fed_before = r['phase_at_inject']
    acks = [m for m in r['msgs'] if m and m[0] == ACK]
    if len(acks) > acks_before + (1 if op == 'write' else 0):
        return ('worker accepted another job after the termination signal '
                '(at point %d, %s): %d ACKs before, %d after' % (
                    step, op, acks_before, len(acks)))
    started_after = [x for x in r['invoked']]
    if len(started_after) > acks_before + (1 if op == 'write' else 0):
        return 'a job started executing after the termination signal'
    if len(r['exits']) != 1:
        return ('exit callback ran %d times after the termination signal at '
                'point %d (%s)' % (len(r['exits']), step, op))
    if r['exits'][0][0] != r['pid']:
        return 'exit callback got pid %r' % (r['exits'][0][0],)
    if r['now'] - r['t_injected'] > 31.5:
        return ('worker took %.1fs to exit after the termination signal'
                % (r['now'] - r['t_injected']))
    return None


def soft_check(cfg, r, inject):
    """The soft-limit signal raises SoftTimeLimitExceeded exactly where it
    lands; inside a task that is the task's result (or the task catches it
    and its value is delivered)."""
    if r['exc']:
        return 'worker vthread raised outside the process model: %s' % r['exc']
    if r['inject_at'] is None:
        return None
    step, op = r['inject_at']
    acks_before, readies_before, fed = r['phase_at_inject']
    in_task = acks_before > readies_before and op == 'task'
    if not in_task or not r['handler_installed'] or not r['loop_started']:
        return None       # between jobs / inside pool code: see DESIGN C06
    k = acks_before - 1
    name = r['fed'][k]
    res = [m[1] for m in r['msgs'] if m and m[0] == READY and
           m[1][0] == 10 + k]
    if len(res) != 1:
        return ('job %d was hit by the soft limit inside the task and sent %d '
                'results' % (10 + k, len(res)))
    ok, val = res[0][2]
    if name == 'convert':
        if ok or val.type is not tasks.TaskFailed:
            return ('task wraps whatever interrupts it, but the soft limit '
                    'surfaced as %r' % ((ok, getattr(val, 'type', val)),))
    elif name == 'swallow':
        if not ok or val != ('swallowed', k):
            return ('task swallowed the soft limit and returned a value, but '
                    'the result delivered is %r' % ((ok, val),))
    elif name == 'catch':
        if not ok or val != ('caught-soft', k):
            return ('task caught the soft limit and returned a value, but the '
                    'result delivered is %r' % ((ok, val),))
    elif name == 'inexc' and op == 'task':
        if ok:
            return 'soft limit inside the task vanished: %r' % (val,)
        if val.type is not bexc.SoftTimeLimitExceeded:
            return 'task hit by the soft limit reported %r' % (val.type,)
    else:
        if ok or val.type is not bexc.SoftTimeLimitExceeded:
            return ('task hit by the soft limit at point %d reported %r' % (
                step, (ok, getattr(val, 'type', val))))
    # the worker carries on with the next job
    if r['state'] == 'running' and r['unread']:
        return 'worker stopped taking jobs after a soft limit'
    return None


def kill_check(cfg, r, inject):
    if r['inject_at'] is None:
        return None
    if r['state'] == 'running':
        return 'SIGKILLed process still running (harness)'
    if r['exits']:
        # abrupt death runs no callback -- sanity of the process model
        return None
    return None


CHECKS = {int(signal.SIGTERM): term_check, int(SOFT): soft_check,
          int(signal.SIGKILL): kill_check}


# ---------------------------------------------------------------- drivers
def configs(tier):
    T = tier == 'thorough'
    names = ['ok', 'raise', 'base', 'unpicklable', 'catch', 'inexc',
             'convert', 'swallow']
    out = []
    maxlen = 2 if not T else 3
    for n in range(1, maxlen + 1):
        alpha = names if n <= 2 else ['ok', 'raise', 'unpicklable']
        for seq in itertools.product(alpha, repeat=n):
            for quota in (None, 1, 2) + ((3,) if T else ()):
                for end in ('sentinel', 'eof') + (('event',) if n == 1 else ()):
                    out.append(dict(tasks=list(seq), quota=quota, end=end))
    # handshake
    for seq in itertools.product(['ok', 'raise'], repeat=2):
        for syn in itertools.product(['ack', 'nack'], repeat=2):
            for quota in (None, 1, 2):
                out.append(dict(tasks=list(seq), quota=quota, synack=True,
                                syn=list(syn)))
    # results whose serialisation fails with other exception types than the
    # pickle module's own (an OSError, a ValueError from __reduce__)
    for name in ('unpicklable_os', 'unpicklable_value'):
        for quota in (None, 1):
            out.append(dict(tasks=[name, 'ok'], quota=quota))
    # max_memory_per_child: the limit is exceeded after the k-th job, with
    # and without a task quota, prompt / late / missing consumption
    for quota in (None, 3):
        for k in (1, 2):
            out.append(dict(tasks=['ok', 'raise', 'ok'], quota=quota,
                            mem_after=k))
    out.append(dict(tasks=['ok', 'ok'], quota=None, mem_after=1,
                    consume='late'))
    out.append(dict(tasks=['ok', 'ok'], quota=3, mem_after=1,
                    consume='never'))
    # an application initializer that touches signal dispositions: the
    # worker's own handlers are installed after it and still decide
    for init in ('reset', 'own'):
        out.append(dict(tasks=['catch', 'ok'], quota=None, init=init))
        out.append(dict(tasks=['ok'], quota=1, init=init))
    # a parent that answers the handshake only after more than a minute
    # (the worker's 'WAIT FOR ACK TIMEOUT' path): the answer still decides
    for syn in (['nack', 'ack'], ['ack', 'nack']):
        out.append(dict(tasks=['ok', 'raise'], quota=1, synack=True,
                        syn=syn, syn_late=63))
    # consumption guard
    for pol in ('late', 'never'):
        out.append(dict(tasks=['ok'], quota=1, consume=pol))
        out.append(dict(tasks=['ok', 'raise'], quota=2, consume=pol))
    return out


def run_cfg(arg):
    """Fault-free run, then one run per (injection point, signal)."""
    import gc
    # An exception raised by a signal handler inside Connection.send leaves a
    # traceback -> frame -> BytesIO <- memoryview cycle; collecting it
    # crashes CPython 3.12.1 ("deallocated BytesIO object has exported
    # buffers").  The cycle is harmless while uncollected: no cyclic GC in
    # these short-lived enumeration processes.
    _no_final_gc()
    import gc
    gc.disable()                  # collect between executions only (l3.py)
    cfg, sigs, lines = arg
    base = Run(cfg, None, lines).run()
    v = spec_check(cfg, base, None)
    stats = dict(runs=1, points=base['points'], violations=[],
                 outcomes=set(), ops=collections.Counter(base['trace']))
    stats['outcomes'].add(('base', base['status'], len(base['msgs'])))
    if v:
        stats['violations'].append((cfg, None, v, None))
        return _ser(stats)
    for sig in sigs:
        chk = CHECKS[int(sig)]
        for k in range(base['points'] + 1):
            r = Run(cfg, (k, int(sig)), lines).run()
            stats['runs'] += 1
            if stats['runs'] % 25 == 0:
                vproc.safe_collect()
            v = chk(cfg, r, (k, int(sig)))
            if not v and (int(sig) != int(SOFT) or (
                    r['inject_at'] and r['inject_at'][1] == 'task')):
                # (a soft-limit signal that lands outside task code is
                # outside what the statement speaks about)
                v = spec_check(cfg, r, (k, int(sig)))
            vsig = None
            if isinstance(v, tuple):
                v, vsig = v
            stats['outcomes'].add((int(sig), r['status'], r['state'],
                                   (r['inject_at'] or (0, '-'))[1][:12],
                                   len(r['msgs'])))
            if v:
                stats['violations'].append((cfg, (k, int(sig)), v, vsig))
                if len([x for x in stats['violations'] if not x[3]]) > 2:
                    return _ser(stats)
    return _ser(stats)


_armed = False


def _no_final_gc():
    """Worker interpreters: leave without the final collection (see
    run_cfg); results have been handed back synchronously by then."""
    global _armed
    import atexit
    import multiprocessing
    import os
    if not _armed and multiprocessing.current_process().name != 'MainProcess':
        _armed = True
        atexit.register(lambda: os._exit(0))


def _ser(st):
    st['outcomes'] = sorted(map(repr, st['outcomes']))
    st['ops'] = dict(st['ops'])
    return st


def conform(traces):
    """Model-to-code binding for the event-level pool harness: every
    worker-local trace its reference worker (SpecWorker) produced -- tasks
    finished with success/failure, then nothing yet / sentinel exit / quota
    exit -- is replayed on the REAL Worker; the message skeleton and the
    exit status must be the same.  Returns (replayed, mismatches)."""
    bad = []
    n = 0
    for maxtasks, trace in traces:
        synack = any(t[0] == 'synack' for t in trace)
        tasks_ = [t for t in trace if t[0] in ('task', 'refused')]
        ends = [t for t in trace if t[0] == 'exit']
        if ends and (not ends[0][2] or ends[0][1] not in (0, bp.EX_RECYCLE)):
            continue      # abrupt deaths / signals: fault injection part
        cfg = dict(tasks=[('ok' if t[0] == 'refused' or t[1] else 'raise')
                          for t in tasks_] or ['ok'],
                   quota=maxtasks, end='sentinel')
        if synack:
            cfg.update(synack=True, syn=['nack' if t[0] == 'refused' else
                                         'ack' for t in tasks_])
        if not tasks_:
            cfg['tasks'] = []
            cfg.pop('synack', None)
            cfg.pop('syn', None)
        r = Run(cfg, None, False).run()
        n += 1
        skel = [(m[0], m[1][2][0]) if m[0] == READY else (m[0],)
                for m in r['msgs'] if m]
        want = []
        k = 0
        for t in tasks_:
            if maxtasks and k >= maxtasks:
                break
            if t[0] == 'refused':
                want += [(ACK,)]        # refused: no result, not counted
                continue
            want += [(ACK,), (READY, t[1])]
            k += 1
        if skel[:len(want)] != want:
            bad.append('trace %r (quota %r): real worker wrote %r, the '
                       'reference worker %r' % (trace, maxtasks, skel, want))
            continue
        if ends:
            if r['status'] != ends[0][1]:
                bad.append('trace %r (quota %r): real worker exit status %r, '
                           'reference %r' % (trace, maxtasks, r['status'],
                                             ends[0][1]))
            elif skel[len(want):] != [(DEATH,)]:
                bad.append('trace %r: real worker tail %r, reference one '
                           'death notice' % (trace, skel[len(want):]))
    return n, bad


def part(rep, tier, name, sigs, pick=None, lines=None):
    """Run the L1 enumeration and record it in ``rep`` as part ``name``."""
    from vmc import par
    T = tier == 'thorough'
    cfgs = [c for c in configs(tier) if pick is None or pick(c)]
    if lines is None:
        lines = T
    items = [(c, [int(s) for s in sigs], lines) for c in cfgs]
    runs = points = 0
    outs = set()
    for (cfg, _, _), st in zip(items, par.pmap('harness.l1:run_cfg', items,
                                               chunksize=4)):
        runs += st['runs']
        points += st['points']
        outs.update(st['outcomes'])
        for c, inj, v, vsig in st['violations']:
            rep.violation('%s\nworker config=%r injection=%r' % (v, c, inj),
                          dict(harness='l1', config=c, inject=inj,
                               lines=lines), signature=vsig)
    rep.part(name, evaluations=runs, states=points, transitions=runs,
             outcomes=outs, samples=[items[0][0], items[-1][0]],
             configs=len(items), line_level=lines,
             signals=[int(s) for s in sigs])


def soft_part(rep, tier):
    part(rep, tier, 'L1-worker-soft-signal', [SOFT],
         pick=lambda c: not c.get('synack') and not c.get('consume') and
         len(c['tasks']) <= 2 and c.get('end', 'sentinel') == 'sentinel')


def replay(rp):
    r = Run(rp['config'], tuple(rp['inject']) if rp.get('inject') else None,
            rp.get('lines', False)).run()
    for k, op in enumerate(r['trace']):
        print(k, op)
    for m in r['msgs']:
        print('msg', m)
    print({k: v for k, v in r.items() if k not in ('trace', 'msgs')})
    inj = tuple(rp['inject']) if rp.get('inject') else None
    v = (CHECKS[inj[1]](rp['config'], r, inj) if inj else None) or \
        spec_check(rp['config'], r, inj)
    if isinstance(v, tuple):
        v = v[0]
    print('violation:', v)
    return 1 if v else 0
