"""C04 -- a worker dying mid-task yields WorkerLostError for exactly its job.
L2 event-level BFS with the death alphabet (DESIGN.md 5/C04)."""
from harness import c01


def oracle(env, ev):
    """Timing half (the 'which job' half is l2.Env._justify)."""
    now = env.world.now
    for j, rec in enumerate(env.jobs):
        h = rec['h']
        if h is None:
            continue
        wl = getattr(h, '_worker_lost', None)
        if wl and rec.get('lost_seen') is None:
            rec['lost_seen'] = wl[0]          # detection instant
        if not wl and rec.get('lost_reported_at') is None:
            rec['lost_seen'] = None           # mark dropped (late result)
        if rec.get('lost_reported_at') is not None and \
                not rec.get('timing_checked'):
            rec['timing_checked'] = True
            det = rec.get('lost_seen')
            lim = h._lost_worker_timeout
            if det is None:
                return ('job %d reported lost without a detection instant'
                        % j)
            if rec['lost_reported_at'] - det < lim - 1e-9:
                return ('job %d reported lost %.3fs after detection, earlier '
                        'than its lost-worker timeout %.3f' % (
                            j, rec['lost_reported_at'] - det, lim))
    if ev and ev[0] == 'tick':
        members = [p.pid for p in env.pool._pool]
        for rec in env.jobs:
            for p in rec['parts'].values():
                if p.get('state') == 'lost' and 'detected_at' not in p and \
                        p.get('pid') not in members and rec['h'] is not None \
                        and p.get('pid') in rec['h'].worker_pids():
                    # reaped, and the parent has processed the accept
                    # message that names the dead process as the owner:
                    # from this round on the parent can know
                    p['detected_at'] = now
        # a supervision round has just run: nothing stays unreported once
        # its timeout has passed (strict comparison in the code: a round
        # exactly at the timeout may defer to the next)
        for j, rec in enumerate(env.jobs):
            h = rec['h']
            if h is None or rec['discarded']:
                continue
            wl = getattr(h, '_worker_lost', None)
            if rec['kind'] == 'imap_unordered':
                continue      # reported item by item: see final()
            ready = h._ready if rec['kind'].startswith('imap') else h.ready()
            # measured from the ground truth, not from whatever instant the
            # handle's mark carries now: the supervision round that reaped
            # the worker holding a part that is still unfinished
            dets = [p['detected_at'] for p in rec['parts'].values()
                    if p.get('state') == 'lost' and 'detected_at' in p]
            det = min(dets) if (wl and dets) else None
            if wl and not ready and det is not None and \
                    now - det > h._lost_worker_timeout + 1e-9:
                sig = None
                if rec['kind'] == 'imap':
                    sig = 'F5:imap-ordered-loss-unreported'
                return ('job %d (%s): supervision ran %.3fs after the loss '
                        'was detected (timeout %.3f) and still did not report '
                        'it (the handle\'s mark now says %.3fs)' % (
                            j, rec['kind'], now - det,
                            h._lost_worker_timeout, now - wl[0]), sig)
        # every reaped worker has been replaced
        pool = env.pool
        if pool._state == 0 and not getattr(env, 'tick_raised', False) and \
                len(pool._pool) != pool._processes:
            return ('after a supervision round the pool has %d workers, '
                    'configured %d' % (len(pool._pool), pool._processes))
    return None


def final(env):
    r = c01.final(env)
    if r:
        return r
    # the loss reaches the caller of every kind of handle
    for j, rec in enumerate(env.jobs):
        h = rec['h']
        if h is None or not rec['kind'].startswith('imap'):
            continue
        lost = [p for p in rec['parts'].values() if p.get('state') == 'lost']
        got_err = False
        # (what the history's own next() calls already took out counts too)
        vals = [n[1] for n in rec['nexts'] if n[0] == 'val']
        nerr = len([n for n in rec['nexts'] if n[0] == 'err'])
        for _ in range(rec['nparts'] + 2):
            try:
                vals.append(h.next(timeout=0))
            except StopIteration:
                break
            except Exception as exc:
                if type(exc).__name__ == 'TimeoutError':
                    sig = 'F5:imap-ordered-loss-unreported' \
                        if rec['kind'] == 'imap' and lost else None
                    return ('%s job %d: next() still pending after '
                            'everything settled (parts %r)' % (
                                rec['kind'], j, rec['parts']), sig)
                got_err = True
                nerr += 1
        if rec['kind'] == 'imap_unordered' and (rec['t'].get('chunksize')
                                                or 1) == 1 and \
                rec['t'].get('fn') == 'tenfold':
            # that part and no other: every part that was not lost delivers
            # its value, every lost part exactly one error item
            done = sorted(repr(rec['expect_items'][i][1])
                          for i, p in rec['parts'].items()
                          if p.get('state') == 'done')
            if sorted(map(repr, vals)) != done or nerr != len(lost):
                sig = None
                if lost and nerr > len(lost):
                    # the lost part's owner is never forgotten and the mark
                    # never cleared: re-reported at every supervision round
                    sig = 'F37:imap-unordered-loss-reported-every-round'
                return ('imap_unordered job %d: parts %r, but the iterator '
                        'delivered values %r and %d error items (a loss is '
                        'reported once, for the lost part only)' % (
                            j, {i: p.get('state')
                                for i, p in rec['parts'].items()},
                            vals, nerr), sig)
        if lost and not got_err:
            return ('%s job %d lost a part but its iterator never raised'
                    % (rec['kind'], j))
        if got_err and not lost and rec['t'].get('fn') == 'tenfold':
            return ('%s job %d raised although nothing was lost'
                    % (rec['kind'], j))
    return None


def configs(tier):
    T = tier == 'thorough'
    out = []
    pool = dict(lost_worker_timeout=3.0)
    ap = dict(kind='apply', fn='ok')
    ap2 = dict(kind='apply', fn='ok', lost=1.0)
    mp = dict(kind='map', fn='tenfold', items=[1, 2], chunksize=1)
    mp2 = dict(kind='map', fn='tenfold', items=[1, 2, 3, 4], chunksize=2)
    mp3 = dict(kind='map', fn='tenfold', items=[1, 2, 3, 4, 5, 6],
               chunksize=2)
    im = dict(kind='imap', fn='tenfold', items=[1, 2])
    imu = dict(kind='imap_unordered', fn='tenfold', items=[1, 2])
    A = dict(die=(-9, 1), die_idle=True, max_adv=3, put_faults=())
    d = 8 if not T else 10
    ms = 30000 if not T else 400000
    for name, jobs, procs, alpha, pk in (
            ('apply2', [ap, ap2], 2, A, pool),
            ('apply-status', [ap], 1,
             dict(A, die=(-9, -15, -11, 1, 70, 255, 0, 0x9B)), pool),
            ('map', [mp], 2, A, pool),
            ('imap', [im], 2, dict(A, next=True), pool),
            ('imap_unordered', [imu], 2, dict(A, next=True), pool),
            ('map+apply', [mp, ap], 2, dict(A, die=(-9,)), pool),
            ('apply+close', [ap, ap2], 2,
             dict(A, die=(-9,), die_idle=False, close=True), pool),
            ('apply+close/1proc', [ap2], 1,
             dict(A, die=(-9,), die_idle=False, close=True), pool),
            ('map/chunks-of-2', [mp2], 2, dict(A, die=(-9,)), pool),
            ('map/3-chunks-of-2', [mp3], 2,
             dict(A, die=(-9,), die_idle=False, max_adv=2), pool),
            ('recycle-map/chunks-of-2', [mp3], 2,
             dict(A, die=(-9,), die_idle=False, max_adv=2),
             dict(pool, maxtasksperchild=1)),
            ('recycle-map', [mp, ap], 2, dict(A, die=(-9,), die_idle=False),
             dict(pool, maxtasksperchild=1)),
            ('recycle-imap', [imu], 2, dict(A, die=(-9,), die_idle=False),
             dict(pool, maxtasksperchild=1)),
            # a second worker is reaped while a lost job waits out its
            # grace period
            ('apply/second-exit-during-grace', [dict(ap, lost=2.0), ap], 2,
             dict(A, die=(-9,), die_idle=True, max_adv=2, depth=d + 2), pool),
            # a worker killed between jobs, its last result not yet
            # processed, the rest of the map not yet taken by anybody
            ('map/1proc/dies-after-its-result', [mp], 1,
             dict(A, die=(-9,), die_idle=True, depth=d + 3), pool),
            ('imap_unordered/1proc/dies-after-its-result', [imu], 1,
             dict(A, die=(-9,), die_idle=True, depth=d + 3), pool),
            # one part lost while its sibling is still running: several
            # supervision rounds pass before the sibling finishes
            ('imap_unordered/slow-sibling', [imu], 2,
             dict(A, die=(-9,), die_idle=False, max_adv=1, depth=d + 3),
             pool)):
        out.append(dict(name=name, procs=procs, jobs=jobs, pool=pk,
                        alphabet=alpha, depth=alpha.pop('depth', d),
                        max_states=ms, final='harness.c04:final',
                        oracle='harness.c04:oracle'))
    if T:
        out.append(dict(name='apply3w', procs=3, jobs=[ap, ap2, ap],
                        pool=pool, alphabet=dict(A, die=(-9,)), depth=10,
                        max_states=600000, final='harness.c04:final',
                        oracle='harness.c04:oracle'))
    return out


def main(tier, seed, only=None):
    from harness import l2run
    return l2run.run('C04', tier, seed, configs(tier), [
        'abrupt death is injected while the worker runs task code or sits '
        'between jobs (idle / waiting to exit), not inside the queue\'s '
        'receive critical section'], only)


def replay(rp):
    from harness import l2run
    return l2run.replay('C04', rp, configs('thorough') + configs('quick'))
