"""The virtual OS: the only hand-written models in the system, and they model
the *environment* (kernel objects), never billiard.

Import this module (and call ``install()``) BEFORE importing billiard:
several billiard modules bind ``os.read``, ``time.monotonic`` ... at import.

Everything dispatches on "is a World active and is the caller inside it":
real fds / real threads / no world fall through to the real implementation.
"""
import errno
import itertools
import os
import select as _select
import signal as _signal
import socket as _socket
import sys
import time as _time

from . import sched as _s
from .sched import TIMEOUT, ProcessKilled, HarnessError, current

VFD_BASE = 1000000
RECURSIVE_MUTEX, SEMAPHORE = 0, 1
SEM_VALUE_MAX = 2147483647

_real = dict(
    read=os.read, write=os.write, close=os.close, pipe=os.pipe,
    getpid=os.getpid, kill=os.kill, waitpid=os.waitpid, urandom=os.urandom,
    getpgid=os.getpgid, killpg=os.killpg, _exit=os._exit, dup=os.dup,
    monotonic=_time.monotonic, time=_time.time, sleep=_time.sleep,
    socketpair=_socket.socketpair, fstat=os.fstat,
    signal=_signal.signal, getsignal=_signal.getsignal,
)


MAIN_PID = os.getpid()
_fd_counter = itertools.count(VFD_BASE)


class WouldBlock(Exception):
    """A sequential (non-vthread) driver made a call that would block."""


class Horizon(Exception):
    """Sequential driver: timed waits advanced the virtual clock past the
    world's horizon (a polling loop that never ends)."""


# ---------------------------------------------------------------- the world
class World:
    """All virtual kernel state of one execution."""

    def __init__(self, sched=None, now=1000.0):
        self.sched = sched
        self._now = now
        self.fds = {}                    # vfd -> (VEnd, owner pid)
        self.next_fd = _fd_counter       # never reused across worlds: a
        #                                  stale Connection collected later
        #                                  must not close a live fd
        self.sems = {}                   # handle -> VSem
        self.next_sem = itertools.count(1)
        self.procs = {}                  # pid -> VProc
        self.next_pid = itertools.count(100)
        self.seq_pid = MAIN_PID          # identity of sequential driver code
        self.seq_tid = ('seq', 0)
        self.host_exit = None            # os._exit() status of the main proc
        self.host_signals = []           # signals sent to the main proc
        main = VProc(MAIN_PID, 0)
        main.is_main = True
        self.procs[MAIN_PID] = main
        self.urandom_ctr = 0
        self.urandom_log = []
        self.urandom_prefix = b''         # harness-chosen leading bytes
        self.io_log = []                 # (op, fd, n) when io_logging
        self.io_logging = False
        self.io_policy = None            # f(world, op, fd, n) -> answer
        self.kills = []                  # (sender pid, target pid, sig)
        self.virtual_time = True
        self.exit_hooks = []
        self.seq_horizon = None          # absolute virtual time or None
        self.sig_after_acquire = []      # (pid, sem): see _op
        self.real_dups = []              # real fds dup'ed for virtual children

    @property
    def now(self):
        return self.sched.now if self.sched is not None else self._now

    @now.setter
    def now(self, v):
        if self.sched is not None:
            self.sched.now = v
        else:
            self._now = v


_world = None


def world():
    return _world


def reset(sched=None, now=1000.0):
    """Start a fresh virtual world (one per execution)."""
    global _world
    _world = World(sched, now)
    return _world


def clear():
    global _world
    w, _world = _world, None
    if w is not None:
        for fd in w.real_dups:
            try:
                _real['close'](fd)
            except OSError:
                pass
        del w.real_dups[:]


class fresh:
    """``with vos.fresh(sched) as w:`` -- one execution's world."""

    def __init__(self, sched=None, now=1000.0):
        self.args = (sched, now)

    def __enter__(self):
        return reset(*self.args)

    def __exit__(self, *a):
        w = _world
        if w is not None and w.sched is not None:
            w.sched.abandon()
        clear()


def _active():
    """The world, if the caller is inside it."""
    w = _world
    if w is None:
        return None
    vt = current()
    if vt is not None:
        return w if vt.sched is w.sched else None
    return w


def cur_pid():
    vt = current()
    if vt is not None:
        return vt.pid
    return _world.seq_pid


def cur_tid():
    vt = current()
    if vt is not None:
        return ('vt', vt.tid)
    if _world is None:
        return ('seq', 0)
    return _world.seq_tid


class as_process:
    """Sequential drivers: ``with as_process(pid, tid):`` run code as that
    virtual process / thread."""

    def __init__(self, pid, tid=None):
        self.pid, self.tid = pid, tid if tid is not None else ('seq', pid)

    def __enter__(self):
        w = _world
        self.saved = (w.seq_pid, w.seq_tid)
        w.seq_pid, w.seq_tid = self.pid, self.tid

    def __exit__(self, *a):
        _world.seq_pid, _world.seq_tid = self.saved


def _point(op, obj=None, enabled=None, deadline=None):
    """Scheduling point if in a vthread; sequential callers must not block."""
    vt = current()
    if vt is None:
        if deadline is not None and _world.seq_horizon is not None and \
                deadline > _world.seq_horizon:
            raise Horizon('%s: timed wait beyond the horizon' % op)
        if enabled is not None and not enabled():
            if deadline is not None:
                _world.now = max(_world.now, deadline)
                return TIMEOUT
            raise WouldBlock('%s on %r would block a sequential driver'
                             % (op, obj))
        if enabled is None and deadline is not None:
            _world.now = max(_world.now, deadline)
            return TIMEOUT
        return None
    return vt.sched.point(op, obj, enabled, deadline)


def _after_op():
    """A signal that arrived while a call was completing: its Python-level
    handler runs at the first bytecode boundary after the call returned."""
    vt = current()
    if vt is not None and vt.intr and not vt.killed:
        vt.intr = False
        h = vt.sched.intr_handler
        if h is not None:
            h(vt)


def _op(fn):
    import functools
    name = fn.__name__

    @functools.wraps(fn)
    def wrapper(*a, **kw):
        r = fn(*a, **kw)
        vt = current()
        if vt is not None and vt.intr and not vt.killed:
            if name == 'acquire' and r and _world is not None:
                # handler about to run between the semaphore being taken and
                # the caller's ``with`` block being entered
                _world.sig_after_acquire.append((vt.pid, a[0].handle))
            _after_op()
        return r
    return wrapper


# -------------------------------------------------------------------- clock
def v_monotonic():
    w = _active()
    if w is None or not w.virtual_time:
        return _real['monotonic']()
    return w.now


def v_time():
    w = _active()
    if w is None or not w.virtual_time:
        return _real['time']()
    return w.now + 1.7e9


@_op
def v_sleep(d):
    w = _active()
    if w is None or not w.virtual_time:
        return _real['sleep'](d)
    _point('sleep', None, None, w.now + max(d, 0))


# ------------------------------------------------------ POSIX semaphore model
class VSem:
    __slots__ = ('handle', 'value', 'maxvalue', 'kind')

    def __init__(self, handle, value, maxvalue, kind):
        self.handle, self.value, self.maxvalue, self.kind = \
            handle, value, maxvalue, kind

    def __repr__(self):
        return 'sem%d=%d' % (self.handle, self.value)


class VSemLock:
    """Look-alike of ``_multiprocessing.SemLock`` (posix): a shared counter
    plus the per-object (= per-process copy) ``count`` / ``last_tid``."""
    SEM_VALUE_MAX = SEM_VALUE_MAX

    def __init__(self, kind, value, maxvalue, name=None, unlink=True):
        if kind not in (RECURSIVE_MUTEX, SEMAPHORE):
            raise ValueError('unrecognized kind')
        if value < 0 or value > maxvalue:
            raise ValueError('invalid value')
        w = _world
        h = next(w.next_sem)
        w.sems[h] = VSem(h, value, maxvalue, kind)
        self._init(h, kind, maxvalue, None if unlink else name)

    def _init(self, handle, kind, maxvalue, name):
        self.handle, self.kind, self.maxvalue, self.name = \
            handle, kind, maxvalue, name
        self.count = 0
        self.last_tid = None

    @property
    def _sem(self):
        return _world.sems[self.handle]

    @staticmethod
    def _rebuild(handle, kind, maxvalue, name=None):
        self = VSemLock.__new__(VSemLock)
        self._init(handle, kind, maxvalue, name)
        return self

    def _after_fork(self):
        self.count = 0

    def _is_mine(self):
        return self.count > 0 and self.last_tid == cur_tid()

    def _count(self):
        return self.count

    def _get_value(self):
        return self._sem.value

    def _is_zero(self):
        return self._sem.value == 0

    @_op
    def acquire(self, block=True, timeout=None):
        if self.kind == RECURSIVE_MUTEX and self._is_mine():
            self.count += 1
            return True
        s = self._sem
        if not block:
            timeout = 0
        if timeout is not None and timeout <= 0:
            _point('sem.try', s)
            if s.value <= 0:
                return False
        else:
            dl = None if timeout is None else _world.now + timeout
            r = _point('sem.acquire', s, lambda: s.value > 0, dl)
            if r is TIMEOUT:
                return False
        s.value -= 1
        self.count += 1
        self.last_tid = cur_tid()
        return True

    @_op
    def release(self):
        s = self._sem
        if self.kind == RECURSIVE_MUTEX:
            if not self._is_mine():
                raise AssertionError('attempt to release recursive lock '
                                     'not owned by thread')
            if self.count > 1:
                self.count -= 1
                return
        _point('sem.release', s)
        if self.kind != RECURSIVE_MUTEX and s.value >= self.maxvalue:
            raise ValueError('semaphore or lock released too many times')
        if self.kind != RECURSIVE_MUTEX and self.maxvalue < SEM_VALUE_MAX \
                and getattr(_world, 'split_release', False):
            # what semlock_release() in Modules/_billiard/semaphore.c (and
            # CPython's _multiprocessing) really does for a bounded
            # semaphore: sem_getvalue(), compare, sem_post() -- two system
            # calls; another *process* can run in between (threads of one
            # process cannot: the GIL is held across both)
            _point('sem.post', s)
        s.value += 1
        self.count -= 1

    def __enter__(self):
        return self.acquire()

    def __exit__(self, *a):
        self.release()


class _BilliardNS:
    """Stands in for the ``_billiard`` / ``_multiprocessing`` extension in
    ``billiard.synchronize``."""
    SemLock = VSemLock

    def __getattr__(self, name):
        import _multiprocessing
        return getattr(_multiprocessing, name)


# ------------------------------------------------------------ pipes and fds
class VBuf:
    """One direction of a pipe / socketpair: byte FIFO."""
    __slots__ = ('data', 'cap', 'readers', 'writers', 'name')

    def __init__(self, cap, name):
        self.data = bytearray()
        self.cap = cap
        self.readers = 0
        self.writers = 0
        self.name = name

    def __repr__(self):
        return '<%s %dB r%d w%d>' % (self.name, len(self.data),
                                     self.readers, self.writers)


class VEnd:
    """What a virtual fd refers to (open file description)."""
    __slots__ = ('rbuf', 'wbuf', 'refs', 'nonblock')

    def __init__(self, rbuf, wbuf):
        self.rbuf, self.wbuf = rbuf, wbuf
        self.refs = 0
        self.nonblock = False

    def __repr__(self):
        return '<end r=%r w=%r>' % (self.rbuf, self.wbuf)


PIPE_CAP = 65536


def _new_fd(end, pid=None):
    w = _world
    fd = next(w.next_fd)
    w.fds[fd] = (end, cur_pid() if pid is None else pid)
    if end.refs == 0:
        if end.rbuf is not None:
            end.rbuf.readers += 1
        if end.wbuf is not None:
            end.wbuf.writers += 1
    end.refs += 1
    return fd


def _drop_fd(fd):
    w = _world
    end, _ = w.fds.pop(fd)
    end.refs -= 1
    if end.refs == 0:
        if end.rbuf is not None:
            end.rbuf.readers -= 1
        if end.wbuf is not None:
            end.wbuf.writers -= 1


def is_vfd(fd):
    return isinstance(fd, int) and fd >= VFD_BASE


def _end(fd):
    try:
        return _world.fds[fd][0]
    except KeyError:
        raise OSError(errno.EBADF, 'Bad (virtual) file descriptor %d' % fd)


def v_pipe(cap=None):
    w = _active()
    if w is None:
        return _real['pipe']()
    n = len(w.fds)
    b = VBuf(cap or PIPE_CAP, 'pipe%d' % n)
    return _new_fd(VEnd(b, None)), _new_fd(VEnd(None, b))


class VSocket:
    """The little of ``socket.socket`` that ``connection.Pipe`` touches."""

    def __init__(self, fd):
        self._fd = fd

    def setblocking(self, flag):
        _end(self._fd).nonblock = not flag

    def fileno(self):
        return self._fd

    def detach(self):
        fd, self._fd = self._fd, -1
        return fd

    def close(self):
        if self._fd >= 0:
            v_close(self.detach())


def v_socketpair(*a, **kw):
    w = _active()
    if w is None:
        return _real['socketpair'](*a, **kw)
    n = len(w.fds)
    ab, ba = VBuf(PIPE_CAP, 'sock%d>' % n), VBuf(PIPE_CAP, 'sock%d<' % n)
    return (VSocket(_new_fd(VEnd(ba, ab))), VSocket(_new_fd(VEnd(ab, ba))))


def v_dup(fd):
    if not is_vfd(fd) or _world is None:
        nfd = _real['dup'](fd)
        if _world is not None:
            # e.g. an Arena's file handed to a virtual child: a real fd that
            # nobody will close once the execution is over
            _world.real_dups.append(nfd)
        return nfd
    return _new_fd(_end(fd))


@_op
def v_close(fd):
    if not is_vfd(fd):
        return _real['close'](fd)
    if _world is None or fd not in _world.fds:
        return          # fd of an earlier world (object collected late)
    _point('close', fd)
    if fd in _world.fds:
        _drop_fd(fd)
    err = getattr(_world, 'close_faults', {}).pop(fd, None)
    if err is not None:
        # close(2) reporting EIO / EINTR: on Linux the descriptor is gone
        # all the same
        raise OSError(err, os.strerror(err))


def _io_answer(op, fd, n):
    """How much of an n-byte read/write the kernel performs now.  Policy
    returns an int in 1..n, or 'EINTR'.  Default: all."""
    w = _world
    if w.io_policy is None:
        return n
    return w.io_policy(w, op, fd, n)


@_op
def v_read(fd, n):
    if not is_vfd(fd) or _world is None:
        return _real['read'](fd, n)
    w = _world
    end = _end(fd)
    b = end.rbuf
    if b is None:
        raise OSError(errno.EBADF, 'not open for reading')
    if w.io_logging:
        w.io_log.append(('read', fd, n))
    if end.nonblock and not b.data and b.writers > 0:
        _point('read.nb', b)
        if not b.data and b.writers > 0:
            raise BlockingIOError(errno.EAGAIN, 'would block')
    else:
        _point('read', b, lambda: bool(b.data) or b.writers == 0)
    if fd not in w.fds:
        raise OSError(errno.EBADF, 'closed during read')
    if not b.data:
        return b''
    avail = min(n, len(b.data))
    k = _io_answer('read', fd, avail)
    if k == 'EINTR':
        raise InterruptedError(errno.EINTR, 'Interrupted system call')
    out = bytes(b.data[:k])
    del b.data[:k]
    return out


@_op
def v_write(fd, data):
    if not is_vfd(fd) or _world is None:
        return _real['write'](fd, data)
    w = _world
    end = _end(fd)
    b = end.wbuf
    if b is None:
        raise OSError(errno.EBADF, 'not open for writing')
    data = bytes(data)
    if w.io_logging:
        w.io_log.append(('write', fd, len(data)))
    if not data:
        return 0
    _point('write', b, lambda: len(b.data) < b.cap or b.readers == 0)
    if fd not in w.fds:
        raise OSError(errno.EBADF, 'closed during write')
    if b.readers == 0:
        raise BrokenPipeError(errno.EPIPE, 'Broken pipe')
    room = min(len(data), b.cap - len(b.data))
    k = _io_answer('write', fd, room)
    if k == 'EINTR':
        raise InterruptedError(errno.EINTR, 'Interrupted system call')
    b.data += data[:k]
    return k


def readable_now(fd):
    b = _end(fd).rbuf
    return b is not None and (bool(b.data) or b.writers == 0)


@_op
def v_poll(object_list, timeout):
    """Replacement for ``billiard.connection._poll`` (virtual fds only when
    every object is virtual; real ones fall through)."""
    fds = [(o, o.fileno() if hasattr(o, 'fileno') else o)
           for o in object_list]
    if _world is None or not any(is_vfd(fd) for _, fd in fds):
        return _real_conn_poll(object_list, timeout)
    if not all(is_vfd(fd) for _, fd in fds):
        raise HarnessError('mixed real / virtual fds in poll')
    for _, fd in fds:
        _end(fd)

    def ready():
        return [o for o, fd in fds
                if fd not in _world.fds or readable_now(fd)]
    if timeout is not None and timeout <= 0:
        _point('poll0', tuple(fd for _, fd in fds))
        return ready()
    dl = None if timeout is None else _world.now + timeout
    _point('poll', tuple(fd for _, fd in fds), lambda: bool(ready()), dl)
    return ready()


_real_conn_poll = None


def _real_select_poll(fds, timeout):
    import select
    if timeout is not None:
        timeout = int(timeout * 1000)
    p = select.poll()
    m = {}
    for fd in fds:
        p.register(fd, select.POLLIN)
        m[fd.fileno() if hasattr(fd, 'fileno') else fd] = fd
    out = []
    for fd, event in p.poll(timeout):
        if event & select.POLLNVAL:
            raise ValueError('invalid file descriptor %i' % fd)
        out.append(m[fd])
    return out


class _VPollster:
    def __init__(self):
        self.objs = []

    def register(self, fd, eventmask=None):
        self.objs.append(fd)

    def poll(self, timeout=None):
        import select
        t = None if timeout is None else timeout / 1000.0
        num = lambda o: o.fileno() if hasattr(o, 'fileno') else o  # noqa
        return [(num(o), select.POLLIN) for o in v_poll(self.objs, t)]


class _SelectNS:
    """``select`` as seen by billiard.connection."""

    def __getattr__(self, name):
        import select
        return getattr(select, name)

    def poll(self):
        return _VPollster()

    def select(self, r, w, x, timeout=None):
        return v_poll(list(r), timeout), [], []


def v_urandom(n):
    w = _active()
    if w is None:
        return _real['urandom'](n)
    out = bytearray(w.urandom_prefix)
    while len(out) < n:
        w.urandom_ctr += 1
        out += w.urandom_ctr.to_bytes(4, 'big') * 1
    out = bytes(out[:n])
    w.urandom_log.append(out)
    return out


# ---------------------------------------------------------------- processes
class VProc:

    def __init__(self, pid, ppid):
        self.pid, self.ppid = pid, ppid
        self.state = 'running'           # running | zombie | reaped
        self.status = None               # exitcode >=0, or -signal
        self.pgid = ppid
        self.handlers = {}               # signum -> handler
        self.pending = []                # signals awaiting delivery
        self.threads = []                # vthreads of this process
        self.sigexit = [False]           # common._should_have_exited cell
        self.sys_exit = None             # per-process sys.exit override
        self.sentinel_w = None           # fd closed at death
        self.is_main = False

    def __repr__(self):
        return '<proc %d %s %r>' % (self.pid, self.state, self.status)


def new_proc(ppid=None):
    w = _world
    pid = next(w.next_pid)
    p = VProc(pid, cur_pid() if ppid is None else ppid)
    w.procs[pid] = p
    return p


def proc_exit(pid, status):
    """The virtual process is gone: zombie with ``status``, every fd it owns
    is closed, its vthreads never run billiard code again."""
    w = _world
    p = w.procs[pid]
    if p.state != 'running':
        return
    if p.is_main:
        w.host_exit = status
    p.state = 'zombie'
    p.status = status
    for fd in [fd for fd, (_, owner) in list(w.fds.items()) if owner == pid]:
        _drop_fd(fd)
    for vt in p.threads:
        if vt.state != 'done':
            vt.sched.kill(vt)
    for h in w.exit_hooks:
        h(p)


def _encode_status(status):
    if status < 0:
        return -status                    # WIFSIGNALED
    return (status & 0xff) << 8


def v_getpid():
    w = _active()
    if w is None:
        return _real['getpid']()
    return cur_pid()


@_op
def v_waitpid(pid, flags):
    w = _active()
    if w is None or pid not in w.procs:
        return _real['waitpid'](pid, flags)
    p = w.procs[pid]
    if p.state == 'reaped' or p.ppid != cur_pid():
        raise ChildProcessError(errno.ECHILD, 'No child processes')
    if flags & os.WNOHANG:
        _point('waitpid0', p)
        if p.state == 'running':
            return 0, 0
    else:
        _point('waitpid', p, lambda: p.state != 'running')
    if p.state == 'reaped':
        raise ChildProcessError(errno.ECHILD, 'No child processes')
    p.state = 'reaped'
    return pid, _encode_status(p.status)


DEFAULT_FATAL = None


def deliver_signal(p, sig):
    """Hook installed by the process layer (vmc.vproc); default model: an
    uncaught signal kills at once, a caught one is queued."""
    if p.is_main:
        _world.host_signals.append(int(sig))
        return
    h = p.handlers.get(sig, _signal.SIG_DFL)
    if sig == _signal.SIGKILL or h == _signal.SIG_DFL:
        proc_exit(p.pid, -int(sig))
    elif h == _signal.SIG_IGN:
        pass
    else:
        p.pending.append(sig)


@_op
def v_kill(pid, sig):
    w = _active()
    if w is None or pid not in w.procs:
        return _real['kill'](pid, sig)
    p = w.procs[pid]
    _point('kill', p)
    w.kills.append((cur_pid(), pid, int(sig)))
    if p.state == 'reaped':
        raise ProcessLookupError(errno.ESRCH, 'No such process')
    if p.state == 'zombie' or sig == 0:
        return
    deliver_signal(p, sig)


def v_getpgid(pid):
    w = _active()
    if w is None or pid not in w.procs:
        return _real['getpgid'](pid)
    p = w.procs[pid]
    if p.state == 'reaped':
        raise ProcessLookupError(errno.ESRCH, 'No such process')
    return p.pgid


def v_killpg(pgid, sig):
    w = _active()
    if w is None or pgid not in w.procs:
        return _real['killpg'](pgid, sig)
    for p in list(w.procs.values()):
        if p.pgid == pgid and p.state == 'running':
            v_kill(p.pid, sig)


def v_signal(signum, handler):
    w = _active()
    if w is None or cur_pid() not in w.procs:
        return _real['signal'](signum, handler)
    p = w.procs[cur_pid()]
    old = p.handlers.get(signum, _signal.SIG_DFL)
    p.handlers[signum] = handler
    return old


def v_getsignal(signum):
    w = _active()
    if w is None or cur_pid() not in w.procs:
        return _real['getsignal'](signum)
    return w.procs[cur_pid()].handlers.get(signum, _signal.SIG_DFL)


class VExit(BaseException):
    """os._exit() inside a virtual process."""

    def __init__(self, status):
        self.status = status


def v__exit(status):
    w = _active()
    if w is None or cur_pid() not in w.procs:
        return _real['_exit'](status)
    proc_exit(cur_pid(), status & 0xff)     # what the kernel keeps
    raise ProcessKilled()


# ------------------------------------------------------------------ install
_installed = False


def install():
    """Wrap the os / time / socket entry points globally (idempotent)."""
    global _installed
    if _installed:
        return
    if 'billiard' in sys.modules:
        raise HarnessError('vos.install() must precede "import billiard"')
    _installed = True
    os.read, os.write, os.close, os.pipe = v_read, v_write, v_close, v_pipe
    os.dup = v_dup
    os.getpid, os.kill, os.waitpid = v_getpid, v_kill, v_waitpid
    os.getpgid, os.killpg, os._exit = v_getpgid, v_killpg, v__exit
    os.urandom = v_urandom
    _time.monotonic, _time.time, _time.sleep = v_monotonic, v_time, v_sleep
    _socket.socketpair = v_socketpair
    _signal.signal, _signal.getsignal = v_signal, v_getsignal


def bind_billiard():
    """After billiard is imported: the substitutions that are module
    attributes of billiard modules."""
    global _real_conn_poll
    import billiard.connection as bc
    import billiard.synchronize as bs
    if _real_conn_poll is None:
        if hasattr(bc, '_poll'):
            _real_conn_poll = bc._poll
            bc._poll = v_poll
        else:
            # the private readiness helper was renamed or inlined: virtualise
            # one level further down, at the ``select`` module it uses
            _real_conn_poll = _real_select_poll
            bc.select = _SelectNS()
    bs._billiard = _BilliardNS()
    import billiard.compat as bcompat
    _rsb = bcompat.setblocking

    def setblocking(handle, blocking):
        if is_vfd(handle):
            _end(handle).nonblock = not blocking
            return
        return _rsb(handle, blocking)
    bcompat.setblocking = setblocking
    bc.setblocking = setblocking
