"""C16 -- queues lose nothing, duplicate nothing and respect their capacity.

The real ``Queue``, ``SimpleQueue`` and ``JoinableQueue`` of billiard/queues.py
run over virtual pipes (``vos.VBuf``) and the ``VSemLock`` model; the feeder
thread and the ``_notempty`` condition are scheduler objects
(``billiard.queues.threading = vthreading.NS``).  Every virtual process is a
vthread with its own pid holding its own copy of the queue made by billiard's
spawn pickling (``vctx.clone``); the creating process uses the original.

Deciding step: ``explore.dfs`` executes every schedule (and every short-read /
timer deviation) of total cost <= the bound stated per configuration; the
oracle compares against plain-list reference bookkeeping.  DESIGN.md section
5, C16.
"""
import pickle
import random

from vmc import vctx, vos, sched as vs, explore, par, report, vthreading
from vmc import linepoints
from queue import Empty, Full

import billiard.queues as bq
import billiard.connection as bconn
import multiprocessing.util as mpu

bq.threading = vthreading.NS

# Finalize.__call__ binds ``getpid=os.getpid`` as a default argument when
# multiprocessing.util is first imported; in a spawned par worker that happens
# before the virtual OS is installed.  Queue.close() / join_thread() go through
# Finalize objects created under a *virtual* pid, so the comparison must use
# the virtual getpid as well.
_d = list(mpu.Finalize.__call__.__defaults__)
_d[-1] = vos.v_getpid
mpu.Finalize.__call__.__defaults__ = tuple(_d)
del _d

CTX = vctx.VContext()
TO = 0.5                      # the timeout of every timed put / get
EPS = 1e-9
BIGLEN = 70 * 1024            # > vos.PIPE_CAP (64 KiB)
BIG = bytes(range(256)) * (BIGLEN // 256)
P_PID, C_PID, J_PID, PROBE_PID = 5000, 5100, 5200, 5300

_CUR = None                   # the Env of the execution in progress
_LINE_CODES = None            # code objects preempted at line level


def _line_codes():
    """Configurations with several threads of ONE process sharing ONE queue
    object race on plain attributes (``_thread``, ``_buffer``): there every
    source line of put() / _start_thread() is a scheduling point."""
    global _LINE_CODES
    if _LINE_CODES is None:
        _LINE_CODES = linepoints.codes_of(
            bq.Queue.put, bq.Queue._start_thread, bq.JoinableQueue.put,
            bq.Queue.get, bq.JoinableQueue.task_done)
    return _LINE_CODES


def payload(p, i, big):
    return BIG if big else 'v%s.%s' % (p, i)


class GetInterrupted(Exception):
    """What a signal handler raised while a blocking read was waiting."""


class Unpicklable:
    """An object the feeder thread cannot serialise."""

    def __reduce__(self):
        raise TypeError('this object cannot be pickled')


def ident(v):
    """(producer, index, 'ok' | 'changed') of a received object."""
    try:
        p, i, pl = v
        if pl == BIG:
            return (p, i, 'ok') if _CUR.big.get(p) == i else (p, i, 'changed')
        return (p, i, 'ok' if pl == payload(p, i, False) and
                _CUR.big.get(p) != i else 'changed')
    except Exception:
        return ('garbled', repr(v)[:40], 'changed')


# the moment an item leaves the pipe (end of Connection.recv_bytes) is an
# observation point of the oracle; no scheduling point is added
_orig_recv_bytes = bconn.Connection.recv_bytes


def _logged_recv_bytes(self, *a, **kw):
    res = _orig_recv_bytes(self, *a, **kw)
    env = _CUR
    if env is not None and vs.current() is not None:
        try:
            idn = ident(pickle.loads(res))
        except Exception:
            idn = ('garbled', len(res), 'changed')
        env.ev('taken', vs.current().name, idn)
    return res


bconn.Connection.recv_bytes = _logged_recv_bytes


def _feeder_error(msg, *args, **kw):
    """Stands in for util.error inside Queue._feed: an exception that ends a
    feeder thread is recorded for the oracle's message instead of being
    printed (a feeder unwinding because its execution was abandoned passes
    through here as well; that happens after the oracle ran)."""
    env = _CUR
    if env is not None:
        env.feeder_errors.append((msg % args)[:120] if args else msg)
    return True


bq.error = _feeder_error


class DelayChoices(vs.Choices):
    """Cost model 'D' (delay bounding): *every* scheduling choice other than
    the canonical one (running vthread continues; when it blocks or ends, the
    enabled vthread with the lowest id runs) costs 1 -- also the choices
    vmc.sched gives away for free after a block.  Used where the free
    alternatives alone are too many to enumerate (>= 4 vthreads)."""

    def next(self, n, costs=None, label=''):
        if costs is not None and label.startswith('sched:'):
            costs = (costs[0],) + tuple(max(1, c) for c in costs[1:])
        return vs.Choices.next(self, n, costs, label)


class Env:

    def __init__(self, cfg, prefix):
        self.cfg = cfg
        self.choices = (DelayChoices if cfg.get('model', 'D') == 'D'
                        else vs.Choices)(prefix)
        self.sched = vs.Scheduler(self.choices, horizon=1000.0 + 30.0,
                                  timer_deviation=True, max_steps=8000)
        self.log = []
        self.copies = []
        self.big = {}
        self.tickets = 0
        self.nput_ok = 0
        self.prod_left = 0        # producer threads of a shared object
        self.feeder_errors = []

    def ev(self, *a):
        self.log.append(a + (self.sched.now,))


def _short_io(world, op, fd, n):
    """Kernel may return a short read: explored as a deviation (cost 1)."""
    if op != 'read' or n <= 1 or vs.current() is None:
        return n
    k = world.sched.choose(3, 'io:read')
    return (n, 1, max(1, n // 2))[k]


# ------------------------------------------------------------------ execution
def run(cfg, prefix):
    global _CUR
    if cfg.get('bad'):
        cfg = dict(cfg, bad={int(k): v for k, v in cfg['bad'].items()})
    env = Env(cfg, prefix)
    sched = env.sched
    kind, maxsize = cfg['kind'], cfg.get('maxsize', 0)
    prods, cons = cfg['prods'], cfg['cons']
    try:
        with vos.fresh(sched) as world:
            _CUR = env
            if cfg.get('short'):
                world.io_policy = _short_io
            if kind == 'queue':
                q = CTX.Queue(maxsize)
            elif kind == 'joinable':
                q = CTX.JoinableQueue(maxsize)
            else:
                q = CTX.SimpleQueue()
            rbuf = vos._end(q._reader.fileno()).rbuf
            orig = cfg.get('orig')
            pthreads, cthreads = cfg.get('pthreads'), cfg.get('cthreads')
            if pthreads or cthreads:
                linepoints.enable(_line_codes())
                sched.linepoints = True
            shared = {}

            def copy(role, pid):
                # threads of one process share one object (no clone): the
                # producers share the original, the consumers one copy
                if (pthreads and role[0] == 'p') or role == orig:
                    c, pid = q, vos.MAIN_PID
                elif cthreads and role[0] == 'c':
                    if 'c' not in shared:
                        shared['c'] = vctx.clone(q, C_PID)
                    c, pid = shared['c'], C_PID
                else:
                    c = vctx.clone(q, pid)
                env.copies.append(c)
                return c, pid
            env.copies.append(q)
            roles = []
            for p, (op, n, big) in enumerate(prods):
                if big is not None:
                    env.big[p] = big
                c, pid = copy('p%d' % p, P_PID + p)
                roles.append(('P%d' % p, pid, _producer(env, p, c, op, n, big,
                                                        kind)))
            env.tickets = sum(n for _, n, _ in prods) - len(cfg.get('bad', {}))
            env.prod_left = len(prods) if pthreads else 0
            for j, op in enumerate(cons):
                c, pid = copy('c%d' % j, C_PID + j)
                roles.append(('C%d' % j, pid, _consumer(env, j, c, op, kind,
                                                        rbuf)))
            if cfg.get('join'):
                c, pid = copy('j', J_PID)
                roles.append(('J', pid, _joiner(env, c, cfg['join'])))
            probe_q = vctx.clone(q, PROBE_PID)
            env.copies.append(probe_q)
            if cfg.get('consumers_first'):
                roles.sort(key=lambda r: r[0][0] != 'C')
            for name, pid, fn in roles:
                sched.spawn(fn, name, pid=pid)
            sched.run()
            status = sched.status
            v = _oracle(env, status)
            outcome = _outcome(env, status)
            if v is None and status == 'done':
                v = _probe(env, probe_q, rbuf)
            decisions = env.choices.decisions
    finally:
        _CUR = None
        if cfg.get('pthreads') or cfg.get('cthreads'):
            linepoints.disable()
        # Connection.__del__ would os.close() a virtual fd at some later,
        # garbage-collector chosen moment: forget the handles now
        for c in env.copies:
            for conn in (getattr(c, '_reader', None),
                         getattr(c, '_writer', None)):
                if conn is not None and hasattr(conn, '_handle'):
                    conn._handle = None
        vctx.reset_billiard_globals()
    return explore.Execution(decisions, outcome=outcome, violation=v,
                             log=env.log, status=status)


def _producer(env, p, q, op, n, big, kind):
    sched = env.sched

    def body():
        for i in range(n):
            val = (p, i, payload(p, i, big == i))
            if env.cfg.get('bad', {}).get(p) == i:
                val = (p, i, Unpicklable())
            while True:
                env.ev('put_call', p, i, op)
                try:
                    if op == 'put':
                        q.put(val)
                    elif op == 'nb':
                        q.put(val, False)
                    elif op == 'nw':
                        q.put_nowait(val)
                    else:
                        q.put(val, timeout=TO)
                except Full:
                    env.ev('put_full', p, i, op)
                    if op in ('nb', 'nw'):
                        sl = q._sem._semlock
                        sched.point('h:wait-room', None,
                                    lambda: sl._get_value() > 0)
                    continue
                env.nput_ok += 1
                if env.cfg.get('bad', {}).get(p) == i:
                    # accepted, but it can never be delivered
                    env.ev('put_bad', p, i)
                else:
                    env.ev('put_ok', p, i)
                break
        if env.prod_left:
            # a thread of a multi-threaded producer process: the thread that
            # finishes last performs the process exit
            env.prod_left -= 1
            if env.prod_left:
                return 'ok'
        if kind != 'simple':
            # clean process exit: what util._exit_function does through the
            # queue's finalizers, then the parent outlives its feeder thread
            q.close()
            q.join_thread()
            th = q._thread
            if th is not None:
                sched.point('h:wait-feeder', None, lambda: not th.is_alive())
        return 'ok'
    return body


def _consumer(env, c, q, op, kind, rbuf):
    sched = env.sched

    def body():
        out = []
        first = [op == 'ix']
        if first[0]:
            # a plain blocking get() whose read is interrupted by a signal
            # handler that raises (PEP 475: only a read that is waiting can
            # be interrupted): tried once an item has been accepted
            sched.point('h:wait-first-put', None, lambda: env.nput_ok >= 1)
            real = q._recv_bytes

            def interrupted(*a, **kw):
                if first[0] and not rbuf.data:
                    first[0] = False
                    raise GetInterrupted('signal handler raised in read()')
                return real(*a, **kw)
            q._recv_bytes = interrupted
        while env.tickets > 0:
            env.tickets -= 1
            while True:
                env.ev('get_call', c, op, bool(rbuf.data))
                try:
                    if op in ('get', 'ix'):
                        v = q.get()
                    elif op == 'to':
                        v = q.get(timeout=TO)
                    elif op == 'nb':
                        v = q.get(False)
                    else:
                        v = q.get_nowait()
                except GetInterrupted:
                    env.ev('get_aborted', c, op)
                    continue
                except Empty:
                    env.ev('get_empty', c, op)
                    if op in ('nb', 'nw'):
                        rl = q._rlock._semlock
                        sched.point('h:wait-data', None, lambda: bool(
                            rbuf.data) and rl._get_value() > 0)
                    continue
                break
            idn = ident(v)
            out.append(idn)
            env.ev('get_ok', c, idn)
            if kind == 'joinable':
                env.ev('td_call', c)
                q.task_done()
                env.ev('td_ret', c)
        return tuple(out)
    return body


def _joiner(env, q, mode):
    sched = env.sched

    def body():
        if mode == 'after_put':
            sched.point('h:wait-first-put', None, lambda: env.nput_ok >= 1)
        env.ev('join_call', 'J')
        q.join()
        env.ev('join_ret', 'J')
        return 'ok'
    return body


# --------------------------------------------------------------------- oracle
def _attempts(log, call, ends):
    """Pair every ``call`` event with the following end event of the same
    actor: [(who, call_idx, end_idx|None, end_kind|None, call_event)]."""
    open_, out = {}, []
    for k, e in enumerate(log):
        if e[0] == call:
            open_[e[1]] = len(out)
            out.append([e[1], k, None, None, e])
        elif e[0] in ends and e[1] in open_:
            a = out[open_.pop(e[1])]
            a[2], a[3] = k, e[0]
    return out


def _oracle(env, status):
    cfg, log = env.cfg, env.log
    maxsize = cfg.get('maxsize', 0)
    sched = env.sched
    errs = [(t.name, type(t.exc).__name__, str(t.exc)[:100])
            for t in sched.threads if t.exc is not None]
    if errs:
        return 'exception escaped from a queue operation: %r' % (errs,)
    expected = sorted((p, i, 'ok') for p, (_, n, _) in enumerate(cfg['prods'])
                      for i in range(n) if cfg.get('bad', {}).get(p) != i)
    puts = _attempts(log, 'put_call', ('put_ok', 'put_full', 'put_bad'))
    gets = _attempts(log, 'get_call', ('get_ok', 'get_empty', 'get_aborted'))
    got = [e[2] for e in log if e[0] == 'get_ok']
    # -- values unchanged, nothing duplicated, nothing invented
    for g in got:
        if g[2] != 'ok':
            return 'get returned a changed / foreign object: %r' % (g,)
    if len(set(got)) != len(got):
        return 'an object was returned by more than one get: %r' % (got,)
    if not set(got) <= set(expected):
        return 'get returned objects never put: %r' % (got,)
    # -- per-producer order: per consumer, and in pipe order globally
    seqs = {}
    for e in log:
        if e[0] == 'get_ok':
            seqs.setdefault('consumer %s' % e[1], []).append(e[2])
        elif e[0] == 'taken':
            seqs.setdefault('pipe', []).append(e[2])
    for who, seq in sorted(seqs.items()):
        last = {}
        for idn in seq:
            if idn[0] in last and idn[1] <= last[idn[0]]:
                return ('order of producer %s not preserved as seen by %s: %r'
                        % (idn[0], who, seq))
            last[idn[0]] = idn[1]
    # -- capacity: (successful puts - items taken from the pipe) <= maxsize
    if maxsize > 0:
        nput = ntaken = 0
        for k, e in enumerate(log):
            if e[0] == 'put_ok':
                nput += 1
                if nput - ntaken > maxsize:
                    return ('%d puts succeeded while only %d items had been '
                            'taken: more than maxsize=%d waiting (event %d)'
                            % (nput, ntaken, maxsize, k))
            elif e[0] == 'taken':
                ntaken += 1
    # -- Full only when at capacity / after the timeout
    getok_idx = [k for k, e in enumerate(log) if e[0] == 'get_ok']
    for who, k0, k1, res, ce in puts:
        if res != 'put_full':
            continue
        op = ce[3]
        if maxsize <= 0:
            return 'Full raised by an unbounded queue (producer %s)' % who
        if op == 'to' and log[k1][-1] - ce[-1] < TO - EPS:
            return ('put(timeout=%s) of producer %s raised Full after %.3f s'
                    % (TO, who, log[k1][-1] - ce[-1]))
        # upper bound of the occupancy at every moment of the attempt: every
        # put begun so far that did not end in Full, minus every get returned
        best = -1
        for k in range(k0, k1 + 1):
            up = sum(1 for a in puts if a[1] <= k and a[3] != 'put_full') \
                - sum(1 for g in getok_idx if g <= k)
            best = max(best, up)
        if best < maxsize:
            return ('Full raised for producer %s (%s) although at most %d < '
                    'maxsize=%d items could have been waiting at any moment '
                    'of the attempt (events %d..%d)'
                    % (who, op, best, maxsize, k0, k1))
    # -- Empty only after the timeout; get_nowait with a sole consumer only
    #    when nothing was in the pipe when it was called
    for who, k0, k1, res, ce in gets:
        if res != 'get_empty':
            continue
        op = ce[2]
        if op == 'to' and log[k1][-1] - ce[-1] < TO - EPS:
            return ('get(timeout=%s) of consumer %s raised Empty after %.3f s'
                    % (TO, who, log[k1][-1] - ce[-1]))
        if op in ('nb', 'nw') and len(cfg['cons']) == 1 and ce[3]:
            return ('non-blocking get of the only consumer raised Empty '
                    'although the pipe held data when it was called '
                    '(event %d)' % k0)
    # -- join returns only after a moment with unfinished == 0 in the call
    jc = [k for k, e in enumerate(log) if e[0] == 'join_call']
    jr = [k for k, e in enumerate(log) if e[0] == 'join_ret']
    if jc and jr:
        low = None
        for k in range(jc[0], jr[0] + 1):
            # lower bound of unfinished: puts returned - task_done begun
            u = sum(1 for e in log[:k + 1] if e[0] == 'put_ok') - \
                sum(1 for e in log[:k + 1] if e[0] == 'td_call')
            low = u if low is None else min(low, u)
        if low > 0:
            return ('join() returned although at least %d put items had no '
                    'task_done at every moment of the call' % low)
    # -- termination and conservation
    if status != 'done':
        stuck = [repr(t).replace('pid=%d ' % vos.MAIN_PID, 'pid=MAIN ')
                 for t in sched.threads if t.state != 'done']
        lost = sorted(set(expected) - set(got))
        return ('%s: the reference model can always progress, the queue '
                'cannot; stuck=%r not yet received=%r%s' % (
                    status, stuck, lost,
                    ' feeder errors=%r' % (env.feeder_errors,)
                    if env.feeder_errors else ''))
    if sorted(got) != expected:
        return ('objects lost: put %r, received %r' % (expected, sorted(got)))
    return None


def _outcome(env, status):
    log = env.log
    per = {}
    for e in log:
        if e[0] == 'get_ok':
            per.setdefault(e[1], []).append(e[2][:2])
    nfull = sum(1 for e in log if e[0] == 'put_full')
    nempty = sum(1 for e in log if e[0] == 'get_empty')
    jpos = None
    for k, e in enumerate(log):
        if e[0] == 'join_ret':
            jpos = (sum(1 for x in log[:k] if x[0] == 'put_ok'),
                    sum(1 for x in log[:k] if x[0] == 'td_ret'))
    pipe = tuple(e[2][:2] for e in log if e[0] == 'taken')
    return (status, tuple(sorted((c, tuple(s)) for c, s in per.items())),
            pipe, nfull, nempty, jpos)


def _probe(env, q, rbuf):
    """After the explored part quiesced (everything put was received): the
    capacity is fully available again, exactly maxsize items fit, they come
    back in order, an empty queue makes a timed get wait for its timeout,
    join() sees task_done.  Default schedule, no further branching."""
    cfg = env.cfg
    kind, maxsize = cfg['kind'], cfg.get('maxsize', 0)
    sched = env.sched
    sched.choices = vs.Choices()
    res = {}

    def body():
        n = maxsize if maxsize > 0 else 2
        vals = [('probe', i, payload('probe', i, False)) for i in range(n)]
        if kind == 'simple':
            for v in vals[:1]:
                q.put(v)
            res['got'] = [q.get()]
            res['want'] = vals[:1]
            return
        for i, v in enumerate(vals):
            try:
                q.put_nowait(v)
            except Full:
                res['bad'] = ('put_nowait raised Full with %d of maxsize=%d '
                              'items in an otherwise empty queue'
                              % (i, maxsize))
                return
        if maxsize > 0:
            try:
                q.put_nowait(('probe', n, 'extra'))
                res['bad'] = ('put_nowait accepted item %d of a queue with '
                              'maxsize=%d' % (n + 1, maxsize))
                return
            except Full:
                pass
            t0 = sched.now
            try:
                q.put(('probe', n, 'extra'), timeout=TO)
                res['bad'] = ('put(timeout) accepted item %d of a queue with '
                              'maxsize=%d' % (n + 1, maxsize))
                return
            except Full:
                if sched.now - t0 < TO - EPS:
                    res['bad'] = 'put(timeout=%s) raised Full after %.3f' % (
                        TO, sched.now - t0)
                    return
        got = []
        sched.point('h:wait-data', None, lambda: bool(rbuf.data))
        try:
            got.append(q.get_nowait())
        except Empty:
            res['bad'] = ('get_nowait of the only consumer raised Empty with '
                          'data in the pipe')
            return
        for i in range(n - 1):
            got.append(q.get())
        res['got'], res['want'] = got, vals
        t0 = sched.now
        try:
            res['bad'] = 'get(timeout) on an empty queue returned %r' % (
                q.get(timeout=TO),)
            return
        except Empty:
            if sched.now - t0 < TO - EPS:
                res['bad'] = 'get(timeout=%s) raised Empty after %.3f' % (
                    TO, sched.now - t0)
                return
        if kind == 'joinable':
            for _ in got:
                q.task_done()
            q.join()
        q.close()
        q.join_thread()
        res['closed'] = True
    vt = sched.spawn(body, 'probe', pid=PROBE_PID)
    sched.run()
    if vt.exc is not None:
        return 'after quiescence: %s: %s' % (type(vt.exc).__name__, vt.exc)
    if 'bad' in res:
        return 'after quiescence: ' + res['bad']
    if sched.status != 'done' or vt.state != 'done':
        return ('after quiescence: probe put/get/join sequence on the emptied '
                'queue did not finish (%s): %r' % (
                    sched.status, [repr(t) for t in sched.threads
                                   if t.state != 'done']))
    if res.get('got') != res.get('want'):
        return 'after quiescence: put %r, got %r' % (res.get('want'),
                                                     res.get('got'))
    return None


# --------------------------------------------------------------------- driver
def make_runner(cfg):
    return lambda prefix, expect=None: run(cfg, prefix)


def _explore_cfg(arg):
    cfg, bound, prefix = arg
    if cfg == 'semlock-conformance':
        from harness import envconf
        return envconf.semlock_conformance(bound)
    st = explore.dfs(make_runner(cfg), bound, prefix=prefix or ())
    return st.as_dict()


def _frontier_cfg(arg):
    """Split one expensive configuration into subtree roots."""
    cfg, bound, want = arg
    st = explore.Stats()
    roots = explore.frontier(make_runner(cfg), bound, want, st)
    return st.as_dict(), roots


def _P(op, n, big=None):
    return (op, n, big)


def base_configs(tier):
    """The configurations (without cost model / bound)."""
    thorough = tier == 'thorough'
    out = []

    def add(**cfg):
        cfg.setdefault('maxsize', 0)
        out.append(cfg)
    # ---- Queue: 1 producer x 1 consumer, every operation pair and capacity
    for maxsize in (0, 1, 2):
        for pop in (('put',) if maxsize == 0 else ('put', 'nb', 'to')):
            for gop in ('get', 'to', 'nw'):
                for n in (1, 2):
                    add(kind='queue', maxsize=maxsize, prods=[_P(pop, n)],
                        cons=[gop], orig='p0')
    # ---- Queue: one object that cannot be serialised among good ones (it
    # cannot be delivered; the others must be, and its place is given back)
    for maxsize in (0, 1, 2):
        add(kind='queue', maxsize=maxsize, prods=[_P('put', 2)],
            cons=['get'], orig='p0', bad={0: 0})
        add(kind='queue', maxsize=maxsize, prods=[_P('put', 3)],
            cons=['get'], orig='p0', bad={0: 1})
        add(kind='queue', maxsize=maxsize, prods=[_P('put', 2), _P('put', 1)],
            cons=['get', 'get'], orig=None, bad={0: 0})
    # ---- Queue: a blocking get interrupted while it waits (nothing is
    # taken, so no place may be given back)
    for maxsize in (1, 2):
        for pop in ('put', 'nb'):
            add(kind='queue', maxsize=maxsize, prods=[_P(pop, maxsize + 1)],
                cons=['ix'], orig='p0')
    # the creating process consumes instead
    for maxsize in (0, 1):
        add(kind='queue', maxsize=maxsize, prods=[_P('put', 2)],
            cons=['get'], orig='c0')
        add(kind='queue', maxsize=maxsize, prods=[_P('put', 2)],
            cons=['nb'], orig='c0', consumers_first=True)
    # ---- Queue: one item larger than the pipe
    for maxsize in (0, 1):
        for gop in ('get', 'to', 'nw'):
            add(kind='queue', maxsize=maxsize, prods=[_P('put', 2, 0)],
                cons=[gop], orig='p0')
        add(kind='queue', maxsize=maxsize, prods=[_P('put', 2, 1)],
            cons=['get', 'get'], orig='p0')
        add(kind='queue', maxsize=maxsize,
            prods=[_P('put', 1, 0), _P('put', 1)], cons=['get', 'get'],
            orig='p0')
        add(kind='queue', maxsize=maxsize,
            prods=[_P('put', 1, 0), _P('put', 1, 0)], cons=['get'],
            orig=None)
    # ---- Queue: 1 producer, 2 consumers
    for maxsize in (0, 1, 2):
        for pop in (('put',) if maxsize == 0 else ('put', 'nb', 'to')):
            for gops in (['get', 'get'], ['to', 'get'], ['nw', 'get'],
                         ['to', 'nw']):
                add(kind='queue', maxsize=maxsize, prods=[_P(pop, 2)],
                    cons=gops, orig='p0')
    # ---- Queue: 2 (3) producers, 1..2 consumers
    for maxsize in (0, 1, 2):
        pops = ('put',) if maxsize == 0 else ('put', 'nb', 'to')
        for pop in pops:
            for gops in (['get'], ['get', 'get'], ['to', 'get'],
                         ['nw', 'get'], ['to', 'to'], ['nw', 'nw']):
                for n in (1, 2):
                    if n == 2 and not (thorough or (
                            pop == 'put' and gops in (['get'],
                                                      ['get', 'get']))):
                        continue
                    add(kind='queue', maxsize=maxsize,
                        prods=[_P(pop, n), _P('put' if n == 2 else pop, n)],
                        cons=gops, orig='p0')
    if thorough:
        for maxsize in (0, 1, 2):
            for gops in (['get'], ['get', 'get']):
                add(kind='queue', maxsize=maxsize,
                    prods=[_P('put', 1), _P('put', 1), _P('put', 1)],
                    cons=gops, orig='p0')
                add(kind='queue', maxsize=maxsize,
                    prods=[_P('put', 2), _P('nb' if maxsize else 'put', 1),
                           _P('put', 1, 0)],
                    cons=gops, orig='p0')
    # ---- threads of ONE process sharing ONE queue object (no clone), their
    #      first puts race; line-level preemption inside put/_start_thread/get
    for kind in ('queue', 'joinable'):
        for maxsize in (0, 1, 2):
            add(kind=kind, maxsize=maxsize, prods=[_P('put', 1), _P('put', 1)],
                cons=['get'], pthreads=True)
        add(kind=kind, maxsize=1, prods=[_P('nb', 1), _P('to', 1)],
            cons=['to'], pthreads=True)
        add(kind=kind, maxsize=0, prods=[_P('put', 2), _P('put', 1)],
            cons=['get', 'get'], pthreads=True, cthreads=True)
        add(kind=kind, maxsize=2, prods=[_P('put', 2)],
            cons=['get', 'nw'], orig='p0', cthreads=True)
    add(kind='joinable', maxsize=0, prods=[_P('put', 1), _P('put', 1)],
        cons=['get'], pthreads=True, join='any')
    add(kind='simple', prods=[_P('put', 1), _P('put', 1)],
        cons=['get', 'get'], pthreads=True, cthreads=True)
    # ---- short reads as deviations
    for gop in ('get', 'to', 'nw'):
        add(kind='queue', maxsize=1, prods=[_P('put', 2)], cons=[gop],
            orig='p0', short=True)
    add(kind='queue', maxsize=0, prods=[_P('put', 1, 0), _P('put', 1)],
        cons=['get', 'get'], orig='p0', short=True)
    add(kind='simple', prods=[_P('put', 2, 1)], cons=['get', 'get'],
        orig='p0', short=True)
    # ---- SimpleQueue
    for prods in ([_P('put', 1)], [_P('put', 2)], [_P('put', 1), _P('put', 1)],
                  [_P('put', 2), _P('put', 2)], [_P('put', 2, 0)],
                  [_P('put', 1, 0), _P('put', 1, 0)],
                  [_P('put', 2, 1), _P('put', 1)]):
        for cons in (['get'], ['get', 'get']):
            add(kind='simple', prods=prods, cons=cons,
                orig='p0' if len(cons) == 2 else 'c0')
    if thorough:
        add(kind='simple', prods=[_P('put', 1), _P('put', 1, 0),
                                  _P('put', 2)],
            cons=['get', 'get'], orig='p0')
    # ---- JoinableQueue with task_done() and join() from a third process
    for maxsize in (0, 1, 2):
        for join in ('any', 'after_put'):
            for prods, cons in (([_P('put', 1)], ['get']),
                                ([_P('put', 2)], ['get']),
                                ([_P('put', 1), _P('put', 1)], ['get']),
                                ([_P('put', 2)], ['get', 'get']),
                                ([_P('put', 1), _P('put', 1)],
                                 ['get', 'get']),
                                ([_P('put', 2), _P('put', 2)],
                                 ['get', 'get'])):
                tot = sum(p[1] for p in prods)
                if tot == 4 and not thorough and maxsize == 2:
                    continue
                add(kind='joinable', maxsize=maxsize, prods=prods, cons=cons,
                    orig='p0', join=join)
        # consumer calls task_done(), nobody joins (3 vthreads: cost model
        # P reaches bound 2)
        add(kind='joinable', maxsize=maxsize, prods=[_P('put', 2)],
            cons=['get'], orig='p0', race=True)
        add(kind='joinable', maxsize=maxsize, prods=[_P('put', 2, 0)],
            cons=['get'], orig='c0', race=True)
        add(kind='joinable', maxsize=maxsize,
            prods=[_P('nb' if maxsize else 'put', 2)], cons=['to'],
            orig='j', join='after_put')
        add(kind='joinable', maxsize=maxsize,
            prods=[_P('to' if maxsize else 'put', 2, 0)], cons=['nw'],
            orig='c0', join='any')
    return out


def _nvt(cfg):
    """vthreads of a configuration (feeder threads included)."""
    feeders = 0 if cfg['kind'] == 'simple' else (
        1 if cfg.get('pthreads') else len(cfg['prods']))
    return len(cfg['prods']) + feeders + len(cfg['cons']) + \
        (1 if cfg.get('join') else 0)


def _items(cfg):
    return sum(p[1] for p in cfg['prods'])


def passes(cfg, tier):
    """[(model, bound)] for one configuration.

    model 'P': cost = preemptions + deviations (vmc.sched's own model, the
    choice of the next vthread after a block is free and fully enumerated);
    feasible up to 3-4 vthreads.  model 'D': every non-canonical scheduling
    choice costs 1 (see DelayChoices)."""
    nvt, items = _nvt(cfg), _items(cfg)
    plain = all(p[0] == 'put' for p in cfg['prods']) and \
        all(c == 'get' for c in cfg['cons']) and not cfg.get('short')
    smallest = nvt <= 3 and items == 1 and plain and \
        cfg.get('orig') == 'p0' and cfg['kind'] != 'simple'
    out = []
    if cfg.get('pthreads') or cfg.get('cthreads'):
        # line-level points roughly double the decisions of an execution
        if tier == 'thorough':
            out.append(('D', 2))
            if nvt <= 4 and items <= 2:
                out.append(('P', 1))
        else:
            out.append(('D', 2 if plain and cfg.get('pthreads') and
                        cfg['kind'] != 'joinable' and cfg['maxsize'] <= 1
                        and nvt <= 4 else 1))
        return out
    if tier == 'thorough':
        out.append(('D', 3 if nvt <= 3 or (nvt == 4 and items <= 2 and
                                           cfg['kind'] != 'joinable') else 2))
        if cfg['kind'] == 'simple' and nvt <= 4:
            out.append(('P', 3 if nvt <= 3 else 2))
        elif nvt <= 3:
            out.append(('P', 3 if smallest and cfg['maxsize'] in (0, 1)
                        else 2))
        elif nvt == 4 and items <= 2:
            out.append(('P', 2 if plain and cfg['maxsize'] == 1 and
                        not cfg.get('join') else 1))
    else:
        out.append(('D', 2 if (nvt <= 4 and items <= 2) else 1))
        if nvt <= 3:
            out.append(('P', 2 if (items == 1 and plain) or cfg.get('race')
                        else 1))
    return out


def configs(tier):
    """[(cfg with 'model', bound)]"""
    out = []
    for cfg in base_configs(tier):
        for model, bound in passes(cfg, tier):
            out.append((dict(cfg, model=model), bound))
    return out


def _heavy(cb):
    cfg, bound = cb
    if cfg['model'] == 'P':
        return bound >= 2 or _nvt(cfg) >= 4
    return bound >= 3 or (bound == 2 and bool(
        _nvt(cfg) >= 5 or _items(cfg) > 2 or cfg.get('pthreads') or
        cfg.get('cthreads')))


def _weight(cb):
    cfg, bound = cb
    return (_heavy(cb), bound, _nvt(cfg), _items(cfg))


def main(tier, seed, only=None):
    rep = report.Report('C16', tier, seed)
    cfgs = configs(tier)
    if only:
        cfgs = [c for c in cfgs if c[0]['kind'] in only]
    order = list(range(len(cfgs)))
    random.Random(seed).shuffle(order)
    # expensive passes are split into subtrees explored by different workers
    items, owner = [], []
    split = [i for i in order if _heavy(cfgs[i])]
    fr = par.pmap('harness.c16:_frontier_cfg',
                  [(cfgs[i][0], cfgs[i][1], 32) for i in split])
    pre = {}
    for i, (d, roots) in zip(split, fr):
        pre[i] = d
        for r in roots:
            items.append((cfgs[i][0], cfgs[i][1], r))
            owner.append(i)
    for i in order:
        if i not in pre:
            items.append((cfgs[i][0], cfgs[i][1], None))
            owner.append(i)
    idx = sorted(range(len(items)),
                 key=lambda k: _weight(cfgs[owner[k]]), reverse=True)
    # the semaphore model the queues stand on is replayed against the real
    # _multiprocessing.SemLock alongside (DESIGN.md section 3)
    res = par.pmap('harness.c16:_explore_cfg',
                   [('semlock-conformance', 3 if tier == 'quick' else 4,
                     None)] + [items[k] for k in idx])
    nconf, res = res[0], res[1:]
    rep.part('semlock-conformance', validated=nconf, evaluations=nconf,
             outcomes=['agree'])
    per_cfg = {}
    for i, d in pre.items():
        per_cfg.setdefault(i, []).append(d)
    for k, d in zip(idx, res):
        per_cfg.setdefault(owner[k], []).append(d)
    parts = {}
    for i in sorted(per_cfg):
        cfg, bound = cfgs[i]
        name = '%s-%s%d' % (cfg['kind'], cfg['model'], bound)
        st = parts.setdefault(name, explore.Stats())
        st.__dict__.setdefault('configs', 0)
        st.configs += 1
        seen = False
        for d in per_cfg[i][:1]:
            for smp in d['samples'][:1]:
                st.__dict__.setdefault('cases', []).append(
                    dict(config=cfg, bound=bound, choices=smp['choices'],
                         outcome=smp['outcome']))
        for d in per_cfg[i]:
            st.merge(d)
            for ch, msg in d['violations']:
                if not seen and len(rep.violations) < 10:
                    rep.violation('%s\nconfig=%r bound=%d' % (msg, cfg, bound),
                                  dict(harness='c16', config=cfg, choices=ch))
                seen = True
    for name in sorted(parts):
        st = parts[name]
        cases = st.__dict__.get('cases', [])
        random.Random(seed).shuffle(cases)
        st.samples = cases[:3]
        rep.stats(name, st, configs=st.configs, bound=int(name[-1]),
                  cost_model={'P': 'preemptions+deviations',
                              'D': 'non-canonical scheduling choices'
                                   '+deviations'}[name[-2]])
    rep.assume(
        'VSemLock / VBuf model POSIX semaphores and pipes (capacity 64 KiB); '
        'their conformance with the kernel objects is established by C17 / '
        'C13',
        'granularity: every semaphore, pipe, thread-lock, condition and '
        'thread operation is a scheduling point; plain attribute accesses '
        'of the per-process queue object (deque append/popleft) are atomic; '
        'in the configurations where several threads of one process share '
        'one queue object (pthreads / cthreads) every source line of '
        'Queue.put, _start_thread, get, JoinableQueue.put, task_done is a '
        'scheduling point as well (sys.monitoring LINE events)',
        'a producer process exits cleanly (close(), join_thread()) and the '
        'creating process outlives its feeder thread',
        'cost model P = preemptions + deviations (timer lands first, short '
        'read), every free choice after a block enumerated; cost model D '
        '(configurations with more vthreads) = every scheduling choice that '
        'differs from "running vthread continues, else lowest id" counts 1; '
        'all executions within coverage.parts[*].bound are run',
        'after each explored execution one further put/get/join sequence is '
        'run on the default schedule only (capacity restored, FIFO, Empty '
        'timing)')
    return rep.finish()


def replay(rp):
    x = run(rp['config'], rp['choices'])
    for e in x.log:
        print(e[:-1] if len(repr(e)) < 200 else e[:2], '@%.3f' % e[-1])
    print('status', x.status)
    print('outcome', x.outcome)
    print('violation:', x.violation)
    return 1 if x.violation else 0
