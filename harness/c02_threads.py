"""C02, thread level: the three threads that touch one imap iterator -- the
result handler delivering results (``_set``), the task handler announcing the
length (``_set_length``) and the consumer (``next``) -- as vthreads with
LINE-level preemption inside IMapIterator / IMapUnorderedIterator.  Every
interleaving within the preemption bound; the consumer must see exactly the
sequential result and then the end, nothing may escape from a pool thread,
and the job leaves the cache exactly once."""
from vmc import vctx  # noqa: F401
from vmc import vos, vproc, linepoints, explore
from vmc import sched as vs

vproc.bind()

import billiard.pool as bp                        # noqa: E402

_codes = None


def _lines_on():
    global _codes
    if _codes is None:
        _codes = linepoints.codes_of(bp.IMapIterator, bp.IMapUnorderedIterator)
    linepoints.enable(_codes)


class _Cache(dict):
    """The pool's job cache, counting removals of the job."""
    removed = 0

    def __delitem__(self, k):
        dict.__delitem__(self, k)
        self.removed += 1


def make_runner(cfg):
    kind, order, pre = cfg['kind'], cfg['order'], cfg.get('pre', 0)
    n = len(order)

    def run(prefix, expect=None):
        ch = vs.Choices(prefix)
        sched = vs.Scheduler(ch, timer_deviation=False, max_steps=8000)
        with vos.fresh(sched):
            cache = _Cache()
            it = (bp.IMapIterator if kind == 'imap'
                  else bp.IMapUnorderedIterator)(cache)
            got = []
            # results delivered before the concurrent part begins
            for i in order[:pre]:
                it._set(i, (True, 10 * i))

            def results():
                for i in order[pre:]:
                    it._set(i, (True, 10 * i))

            def length():
                it._set_length(n)

            def consumer():
                for _ in range(n + 1):
                    try:
                        got.append(('val', it.next()))
                    except StopIteration:
                        got.append(('stop',))
                        return
            _lines_on()
            sched.spawn(results, 'results', pid=vos.MAIN_PID)
            sched.spawn(length, 'length', pid=vos.MAIN_PID)
            sched.spawn(consumer, 'consumer', pid=vos.MAIN_PID)
            sched.linepoints = True
            try:
                sched.run()
            finally:
                sched.linepoints = False
                linepoints.disable()
            status = sched.status
            errs = [(t.name, repr(t.exc)) for t in sched.threads if t.exc]
            ready, incache, removed = it._ready, it._job in cache, \
                cache.removed
            desc = sched.describe()
        v = None
        want = [('val', 10 * i) for i in range(n)]
        vals = [g for g in got if g[0] == 'val']
        if errs:
            v = 'an exception escaped into a pool thread: %r' % (errs,)
        elif status != 'done':
            v = ('did not finish (%s): consumer got %r; %r'
                 % (status, got, desc))
        elif (vals if kind == 'imap' else sorted(vals)) != want:
            v = '%s yielded %r, sequential result %r' % (kind, vals, want)
        elif got[-1:] != [('stop',)]:
            v = '%s did not end after its %d items: %r' % (kind, n, got)
        elif not ready or incache or removed != 1:
            v = ('after completion: ready=%r, still cached=%r, removed from '
                 'the cache %d times' % (ready, incache, removed))
        x = explore.Execution(ch.decisions, outcome=(status, tuple(got),
                                                     removed),
                              violation=v, status=status)
        return x
    return run


def explore_cfg(arg):
    cfg, bound = arg
    import gc
    gc.disable()
    run = make_runner(cfg)
    st = explore.Stats()
    found = {}
    stack = [[]]
    while stack:
        p = stack.pop()
        x = run(p, None)
        explore._account(st, x, p)
        if st.executions % 50 == 0:
            gc.collect()
        if x.violation:
            st.violations.pop()
            found.setdefault(x.violation[:40], (x.violation, list(x.choices)))
            if len(found) > 2:
                break
            continue
        stack.extend(reversed(explore.children(x, len(p), bound)))
    d = st.as_dict()
    d['found'] = list(found.values())
    return d


def configs(tier):
    b = 2 if tier == 'quick' else 3
    out = []
    for kind in ('imap', 'imap_unordered'):
        for order, pre in (([0], 0), ([0, 1], 0), ([1, 0], 0), ([0, 1], 1),
                           ([1, 0], 1)):
            out.append((dict(kind=kind, order=order, pre=pre), b))
        if tier != 'quick':
            out.append((dict(kind=kind, order=[2, 0, 1], pre=1), 2))
    return out


def part(rep, tier, name='thread-level-imap-iterator'):
    from vmc import par
    cfgs = configs(tier)
    res = par.pmap('harness.c02_threads:explore_cfg', cfgs)
    st = explore.Stats()
    for (cfg, b), d in zip(cfgs, res):
        found = d.pop('found')
        st.merge(d)
        for msg, chs in found:
            rep.violation('%s\nconfig=%r' % (msg, cfg),
                          dict(harness='c02-threads', config=cfg,
                               choices=chs))
    rep.stats(name, st, preemption_bound=cfgs[0][1], configs=len(cfgs))


def replay(rp):
    x = make_runner(rp['config'])(rp['choices'])
    print('outcome', x.outcome)
    print('violation:', x.violation)
    return 1 if x.violation else 0
