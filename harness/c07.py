"""C07 -- close() then join() drains all work and leaves no processes
behind.  L3: the whole pool on the virtual OS, delay-bounded DFS."""
from vmc import vctx  # noqa: F401
from vmc import par, report, explore


def configs(tier):
    T = tier == 'thorough'
    out = []
    J1 = [('apply', 'ok', 1)]
    J2 = [('apply', 'ok', 1), ('apply', 'boom', 2)]
    JS = [('apply', 'sleepy', 2.0), ('apply', 'ok', 2)]
    JM = [('map', 'tenfold', [1, 2])]
    JI = [('imap', 'tenfold', [1, 2])]
    JW = [('apply', 'work', 1), ('apply', 'work', 2)]
    S = lambda n: ['submit:%d' % i for i in range(n)]          # noqa: E731
    base = [
        ('1proc/1job', 1, J1, S(1) + ['close', 'join', 'late_submit'], {}),
        ('2proc/2jobs', 2, J2, S(2) + ['close', 'join', 'late_submit'], {}),
        ('2proc/2jobs/wait-first', 2, J2,
         S(2) + ['wait:0', 'close', 'join'], {}),
        ('1proc/2jobs', 1, J2, S(2) + ['close', 'join'], {}),
        ('2proc/slow+fast', 2, JS, S(2) + ['close', 'join'], {}),
        ('2proc/map', 2, JM, S(1) + ['close', 'join'], {}),
        ('2proc/imap', 2, JI, S(1) + ['close', 'join'], {}),
        ('2proc/imap/consume', 2, JI, S(1) + ['wait:0', 'close', 'join'], {}),
        ('2proc/map+apply', 2, JM + J1, S(2) + ['close', 'join'], {}),
        ('2proc/map-failing-parts', 2, [('map', 'boom', [1, 2])],
         S(1) + ['close', 'join'], {}),
        ('quota1/2jobs', 2, J2, S(2) + ['close', 'join'],
         dict(maxtasksperchild=1)),
        ('quota1/1proc/2jobs', 1, J2, S(2) + ['close', 'join'],
         dict(maxtasksperchild=1)),
        ('quota1/map', 2, JM, S(1) + ['close', 'join'],
         dict(maxtasksperchild=1)),
        ('2proc/points', 2, JW, S(2) + ['close', 'join'], {}),
        ('close-empty', 2, [], ['close', 'join', 'late_submit'], {}),
        ('timeouts-configured', 2, J2, S(2) + ['close', 'join'],
         dict(timeout=20.0, soft_timeout=10.0)),
    ]
    for name, procs, jobs, script, pk in base:
        big = len(jobs) >= 2 and procs >= 2
        b = (2 if not T else 3)
        out.append((dict(name=name, procs=procs, jobs=jobs, script=script,
                         pool=pk, oracle='c07',
                         expand_known='failing' in name), b,
                    20000 if not T else 60000))
    for name, procs, jobs, script in (
            ('nothreads/2proc/2jobs', 2, J2,
             S(2) + ['pump:3', 'close', 'join', 'late_submit']),
            ('nothreads/1proc/close-at-once', 1, J1,
             S(1) + ['close', 'join']),
            ('nothreads/2proc/map', 2, JM, ['pump:1', 'close', 'join'])):
        out.append((dict(name=name, procs=procs, jobs=jobs, script=script,
                         pool={}, oracle='c07', threads=False),
                    2 if not T else 3, 20000 if not T else 60000))
    out.append((dict(name='2proc/second-thread-submits', procs=2, jobs=J1,
                     script=S(1) + ['close', 'join'], pool={}, oracle='c07',
                     second=True), 2 if not T else 3, 20000 if not T else 60000))
    out.append((dict(name='2proc/empty-imap', procs=2,
                     jobs=[('imap', 'tenfold', [])] + J1,
                     script=S(2) + ['close', 'join'], pool={}, oracle='c07'),
                2 if not T else 3, 20000 if not T else 60000))
    out.append((dict(name='nothreads/hard-limit-during-drain', procs=1,
                     jobs=[('apply', 'sleepy', 3600.0)],
                     script=S(1) + ['pump:1', 'close', 'join'],
                     pool=dict(timeout=1.5), oracle='c07', threads=False,
                     horizon=120.0), 2 if not T else 3,
                20000 if not T else 60000))
    # a worker replaced while the pool runs, then a job done by the
    # replacement, then the drain (the replacement's bookkeeping must be as
    # good as an original worker's)
    out.append((dict(name='1proc/replaced-worker', procs=1, jobs=J2,
                     script=['submit:0', 'wait:0', 'killworker:0', 'rounds:1',
                             'submit:1', 'wait:1', 'close', 'join'],
                     pool={}, oracle='c07'), 2 if not T else 3,
                20000 if not T else 60000))
    # close() landing inside a supervision round that has several workers
    # to start
    out.append((dict(name='1proc/grow2-vs-close', procs=1, jobs=J1,
                     script=['submit:0', 'grow:2', 'sleep:0.85', 'close',
                             'join'],
                     pool={}, oracle='c07', timer_deviation=True),
                2 if not T else 3, 30000 if not T else 150000))
    # a worker started by grow() takes a waiting job while the embedder's
    # on_process_up callback for it is still running
    out.append((dict(name='1proc/grow-with-slow-process-up', procs=1, jobs=JS,
                     script=['submit:0', 'submit:1', 'grow:1', 'wait:1',
                             'close', 'join'],
                     pool={}, oracle='c07', slow_process_up=0.5),
                2 if not T else 3, 20000 if not T else 60000))
    # close() while the supervisor is in the middle of replacing a worker
    # that was told to exit (every line of the replacement code is a
    # scheduling point: only plain attributes separate its state check from
    # the moment the new worker is listed)
    out.append((dict(name='2proc/worker-replaced-vs-close', procs=2, jobs=J1,
                     script=['submit:0', 'wait:0', 'killworker:0',
                             'sleep:0.85', 'close', 'join'],
                     pool={}, oracle='c07', rr=True, timer_deviation=True,
                     linepoints=['_repopulate_pool',
                                 '_create_worker_process']),
                2 if not T else 3, 30000 if not T else 150000))
    if T:
        out.append((dict(name='1proc/1job/timers', procs=1, jobs=J1,
                         script=S(1) + ['close', 'join'], pool={},
                         oracle='c07', timer_deviation=True), 1, 30000))
    return out


def main(tier, seed, only=None):
    import random
    rep = report.Report('C07', tier, seed)
    cfgs = [c for c in configs(tier) if not only or c[0]['name'] in only]
    order = list(range(len(cfgs)))
    random.Random(seed).shuffle(order)
    from harness import l3
    res = l3.explore_split([cfgs[i] for i in order], want=12,
                           wall_s=1800 if tier == 'thorough' else 600)
    for i, d in zip(order, res):
        cfg, b, cap = cfgs[i]
        found = d.pop('found')
        st = explore.Stats()
        st.merge(d)
        rep.stats(cfg['name'], st, delay_bound=b, subtrees=d.get('subtrees'))
        for msg, ch, sig, log in found:
            rep.violation(msg + '\nconfig=%s log tail=%r' % (cfg['name'], log[-6:]),
                          dict(harness='l3', config=cfg, choices=ch),
                          signature=sig)
    rep.assume('virtual OS models (semaphores, pipes, processes, signals) as '
               'validated by the conformance runs; workers run the real '
               'Worker code on a pickled copy (spawn-style inheritance)',
               'delay-bounded scheduling: every schedule that departs at most '
               'N times from the deterministic scheduler is executed (N = '
               'delay_bound per part); timers fire only when nothing else '
               'can run unless timer_deviation is on',
               'helper threads on (threads=True); the threads=False '
               'embedding is the L2 engine\'s territory')
    return rep.finish()


def replay(rp):
    from harness import l3
    return l3.replay(rp)
