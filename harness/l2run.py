"""Shared driver of the L2-based property checks."""
import importlib
import random

from vmc import par, report


def _resolve(spec):
    if not isinstance(spec, str):
        return spec
    mod, _, fn = spec.partition(':')
    return getattr(importlib.import_module(mod), fn)


def prepare(cfg):
    cfg = dict(cfg)
    for k in ('final', 'oracle'):
        if cfg.get(k):
            cfg[k] = _resolve(cfg[k])
    return cfg


def _conform(traces):
    from harness import l1
    return l1.conform(traces)


def run_config(cfg):
    from harness import l2
    return l2.explore_config(prepare(cfg))


def run(pid, tier, seed, cfgs, assumptions, only=None, extra=None):
    rep = report.Report(pid, tier, seed)
    run_into(rep, pid, tier, seed, cfgs, only)
    if extra is not None:
        extra(rep)
    rep.assume('workers behave as WorkerSpec (established for the real Worker '
               'code by the L1 harness of C03)',
               'event-level atomicity of the parent handlers (threads=False); '
               'thread-level interleavings are explored by the L3 harnesses '
               '(C07, C08)', *assumptions)
    return rep.finish()


def run_into(rep, pid, tier, seed, cfgs, only=None):
    """Explore the given L2 configurations and record them in ``rep``."""
    cfgs = [dict(c) for c in cfgs if not only or c['name'] in only]
    for c in cfgs:
        # wall-clock guard per configuration (a cap is reported as a cap)
        c.setdefault('budget_s', 150 if tier == 'quick' else 1100)
    order = list(range(len(cfgs)))
    random.Random(seed).shuffle(order)
    res = par.pmap('harness.l2run:run_config', [cfgs[i] for i in order])
    wtraces = set()
    for i, r in zip(order, res):
        cfg = cfgs[i]
        wtraces.update((a, tuple(tuple(x) for x in b))
                       for a, b in r.get('wtraces', ()))
        rep.part(cfg['name'], evaluations=r['transitions'],
                 states=r['states'], transitions=r['transitions'],
                 outcomes=r['outcomes'].keys(), samples=r['samples'],
                 capped=r['capped'], max_depth=r['max_depth'],
                 events=r['events'], settled=r['settled'],
                 depth_bound=cfg['depth'])
        for v in r['violations']:
            rep.violation(v['message'] + '\nconfig=%s' % cfg['name'],
                          dict(harness=pid.lower(), config=cfg['name'],
                               history=v['history']),
                          signature=v['signature'])
    if wtraces and not rep.violations:
        # bind the one modelled component (the reference worker) to the code
        wt = sorted(wtraces, key=repr)
        chunks = [wt[k::par.NPROC] for k in range(par.NPROC)]
        n = 0
        for cn, bad in par.pmap('harness.l2run:_conform',
                                [c for c in chunks if c]):
            n += cn
            for b in bad[:3]:
                rep.violation('reference worker and real Worker disagree: '
                              + b, dict(harness='l2-conformance'))
        rep.part('worker-traces-replayed-on-real-Worker', validated=n,
                 evaluations=n, outcomes=['agree'], samples=[list(wt[-1])],
                 distinct_traces=len(wt))


def replay(pid, rp, all_cfgs):
    from harness import l2
    cfg = [c for c in all_cfgs if c['name'] == rp['config']][0]
    v, sig = l2.replay_history(prepare(cfg), rp['history'])
    return 1 if v else 0
