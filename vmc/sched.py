"""Virtual threads, the baton scheduler and the choice recorder.

A *vthread* is a real ``threading.Thread`` that only runs while it holds the
baton.  Billiard code reaches the scheduler through *scheduling points*
(``Scheduler.point``) placed in every operation of a virtual kernel object.
All nondeterminism (which vthread goes next, environment answers, timers
landing early) is drawn from one ``Choices`` object, so an execution is a
pure function of its choice sequence.

Two ways of driving vthreads:

* ``Scheduler.run()``    -- automatic: schedule until every non-daemon vthread
  finished, a deadlock or a horizon is hit (DFS harnesses);
* ``Scheduler.step(vt)`` -- manual: run one vthread to its next scheduling
  point (event-level BFS harnesses, where the driver picks the event).
"""
import threading
import _thread

_real_allocate = _thread.allocate_lock
_tls = threading.local()

TIMEOUT = 'TIMEOUT'          # value returned by point() when the deadline won
PY_POINTS = ('task', 'line', 'start', 'in-cs')   # points inside Python code
import os as _os
# real seconds a vthread may run between two points (manual stepping) /
# a whole automatic run may take; only there to turn a real hang of the
# machinery into an error -- generous, because a loaded machine must never
# make a check fail
WATCHDOG_S = float(_os.environ.get('VMC_WATCHDOG_S', '120'))
WATCHDOG_RUN_S = 15 * WATCHDOG_S


class ProcessKilled(BaseException):
    """Raised inside a vthread whose virtual process is dead (or whose
    execution was abandoned); every virtual-OS call re-raises it."""


class HarnessError(Exception):
    """The machinery, not billiard, misbehaved (divergent replay, watchdog)."""


class Deadlock(Exception):
    pass


def current():
    """The vthread the caller runs in, or None (plain driver code)."""
    return getattr(_tls, 'vt', None)


class Decision:
    __slots__ = ('n', 'costs', 'chosen', 'label')

    def __init__(self, n, costs, chosen, label):
        self.n, self.costs, self.chosen, self.label = n, costs, chosen, label

    def __repr__(self):
        return 'D(%s/%s %s)' % (self.chosen, self.n, self.label)


class Choices:
    """Replays ``prefix`` and answers 0 afterwards; records every decision."""

    def __init__(self, prefix=(), expect=None):
        self.prefix = list(prefix)
        self.expect = expect          # optional [(n, label)] for divergence
        self.decisions = []

    def next(self, n, costs=None, label=''):
        if n <= 0:
            raise HarnessError('choice with no alternative: %r' % (label,))
        i = len(self.decisions)
        if costs is None:
            costs = (0,) + (1,) * (n - 1)
        if i < len(self.prefix):
            k = self.prefix[i]
            if k >= n:
                raise HarnessError(
                    'replay diverged at decision %d (%s): choice %d of %d'
                    % (i, label, k, n))
            if self.expect is not None and i < len(self.expect):
                en, el = self.expect[i]
                if en != n or el != label:
                    raise HarnessError(
                        'replay diverged at decision %d: expected %r/%d '
                        'got %r/%d' % (i, el, en, label, n))
        else:
            k = 0
        self.decisions.append(Decision(n, tuple(costs), k, label))
        return k

    @property
    def taken(self):
        return [d.chosen for d in self.decisions]

    def cost(self):
        return sum(d.costs[d.chosen] for d in self.decisions)


class Pending:
    __slots__ = ('op', 'obj', 'enabled', 'deadline')

    def __init__(self, op, obj, enabled, deadline):
        self.op, self.obj, self.enabled, self.deadline = \
            op, obj, enabled, deadline


class _Carrier:
    """A reusable real thread: vthreads of successive executions borrow
    one instead of paying thread creation each time."""
    idle = []

    def __init__(self):
        self.lock = _real_allocate()
        self.lock.acquire()
        self.job = None
        t = threading.Thread(target=self.loop, daemon=True)
        t.start()

    def loop(self):
        while True:
            self.lock.acquire()
            job, self.job = self.job, None
            job()
            _Carrier.idle.append(self)

    @classmethod
    def run(cls, job):
        try:
            c = cls.idle.pop()
        except IndexError:
            c = cls()
        c.job = job
        c.lock.release()


class VThread:

    def __init__(self, sched, tid, name, fn, pid, daemon):
        self.sched, self.tid, self.name, self.fn = sched, tid, name, fn
        self.pid = pid
        self.daemon = daemon
        self.baton = _real_allocate()
        self.baton.acquire()
        self.state = 'parked'
        self.pending = Pending('start', None, None, None)
        self.killed = False
        self.exc = None
        self.result = None
        self.wake = None
        self.intr = False         # a signal is pending for this vthread
        self.nopreempt = 0        # >0: line-level points are suppressed
        self.local = {}           # per-vthread scratch for shims
        self.trace = []           # results observed at points (state identity)
        _Carrier.run(self._main)

    def _main(self):
        _tls.vt = self
        self.baton.acquire()
        self.state = 'running'
        try:
            if self.killed:
                raise ProcessKilled()
            self.result = self.fn()
        except ProcessKilled:
            pass
        except BaseException as exc:       # noqa
            self.exc = exc
        finally:
            self.state = 'done'
            self.pending = None
            try:
                for cb in self.sched.on_thread_exit:
                    cb(self)
            finally:
                _tls.vt = None
                self.sched._thread_done(self)

    def is_enabled(self, now):
        p = self.pending
        if self.state != 'parked':
            return False
        if self.killed or self.intr:
            return True
        if p.enabled is None:
            return p.deadline is None or now >= p.deadline
        if p.enabled():
            return True
        return p.deadline is not None and now >= p.deadline

    def __repr__(self):
        return '<vt %d %s pid=%s %s %s>' % (
            self.tid, self.name, self.pid, self.state,
            self.pending and self.pending.op)


class Scheduler:

    def __init__(self, choices=None, now=1000.0, max_steps=20000,
                 horizon=None, timer_deviation=True, log=None,
                 delay_model=False, rr=False):
        self.choices = choices or Choices()
        # default pick after the running vthread blocked: lowest tid (False)
        # or round robin after the one that blocked (True; a delayed vthread
        # then waits for the others to run, as in delay-bounded scheduling)
        self.rr = rr
        self.now = now
        self.t0 = now
        self.max_steps = max_steps
        self.horizon = horizon            # absolute virtual time or None
        self.timer_deviation = timer_deviation
        # cost model: 'preemption' (switching away from a runnable vthread
        # costs 1, the choice after a block is free) or 'delay' (every
        # departure from the canonical deterministic scheduler costs 1 --
        # delay-bounded scheduling; needed once >3 vthreads make the free
        # choices themselves explode)
        self.delay_model = delay_model
        self.threads = []
        self.steps = 0
        self.last = None
        self._ctl = _real_allocate()
        self._ctl.acquire()
        self.log = log if log is not None else []
        self.on_thread_exit = []
        self.status = None                # 'done' | 'deadlock' | 'horizon' ...
        self.linepoints = False           # toggled by vmc.linepoints
        self.auto = False
        self.error = None
        self._until = None
        self.intr_handler = None          # f(vt): run pending signal handlers
        self.optrace = None               # set to [] to record every step

    # ------------------------------------------------------------ vthreads
    def spawn(self, fn, name=None, pid=None, daemon=False):
        cur = current()
        if pid is None:
            pid = cur.pid if cur is not None else 1
        vt = VThread(self, len(self.threads), name or 't%d' % len(self.threads),
                     fn, pid, daemon)
        self.threads.append(vt)
        return vt

    def point(self, op, obj=None, enabled=None, deadline=None):
        """Called by a vthread: publish the next operation and park.
        Returns TIMEOUT if the deadline, not the condition, resumed it."""
        vt = current()
        if vt is None:
            raise HarnessError('point(%s) outside a vthread' % op)
        if vt.killed:
            raise ProcessKilled()
        vt.pending = Pending(op, obj, enabled, deadline)
        while True:
            vt.state = 'parked'
            if self.auto:
                # the scheduling decision is taken here, in the parking
                # thread: continuing the same vthread costs no context switch
                nxt = self._pick()
                if nxt is None:
                    self._ctl.release()
                    vt.baton.acquire()
                elif nxt[0] is vt:
                    vt.wake = nxt[1]
                else:
                    nxt[0].wake = nxt[1]
                    nxt[0].baton.release()
                    vt.baton.acquire()
            else:
                self._ctl.release()
                vt.baton.acquire()
            vt.state = 'running'
            if vt.killed:
                raise ProcessKilled()
            w, vt.wake = vt.wake, None
            if vt.intr:
                # Python-level signal handlers run between bytecodes or when
                # a *blocking* call is interrupted -- never in the middle of
                # a call that completes at once (a release, a try-acquire, a
                # read with data waiting).  So: pure-Python points and calls
                # that would block run the handler here (it may raise: the
                # call is abandoned; or return: PEP 475, the call is
                # retried); any other operation proceeds and the signal
                # stays pending until the next such point.
                blocked = (w is not TIMEOUT and (
                    (enabled is not None and not enabled()) or
                    (enabled is None and deadline is not None and
                     self.now < deadline)))
                if blocked or op in PY_POINTS:
                    vt.intr = False
                    if self.intr_handler is not None:
                        self.intr_handler(vt)
                    if blocked:
                        if enabled is not None and not enabled():
                            continue
                        if enabled is None and self.now < deadline:
                            continue
            return w

    def _thread_done(self, vt):
        if self.auto:
            nxt = self._pick()
            if nxt is None:
                self._ctl.release()
            else:
                nxt[0].wake = nxt[1]
                nxt[0].baton.release()
        else:
            self._ctl.release()

    def choose(self, n, label='', costs=None):
        return self.choices.next(n, costs, label)

    def _wait_ctl(self, what):
        limit = WATCHDOG_RUN_S if what == 'run' else WATCHDOG_S
        if not self._ctl.acquire(timeout=limit):
            raise HarnessError('watchdog: no scheduling point reached within '
                               '%ss (%s): %r' % (limit, what,
                                                 self.describe()))
        if self.error is not None:
            err, self.error = self.error, None
            raise err

    def _resume(self, vt, wake=None):
        vt.wake = wake
        self.last = vt
        self.steps += 1
        vt.baton.release()
        self._wait_ctl(vt)

    def step(self, vt):
        """Manual mode: run ``vt`` until its next point. The caller asserts
        it is enabled."""
        if vt.state != 'parked':
            raise HarnessError('step on %r' % vt)
        p = vt.pending
        wake = None
        if vt.killed or vt.intr:
            pass
        elif p.enabled is not None and not p.enabled():
            if p.deadline is None:
                raise HarnessError('step on disabled %r' % vt)
            self.now = max(self.now, p.deadline)
            wake = TIMEOUT
        elif p.enabled is None and p.deadline is not None:
            self.now = max(self.now, p.deadline)
            wake = TIMEOUT
        self._resume(vt, wake)

    def kill(self, vt):
        """Mark dead; it unwinds (raising ProcessKilled at every virtual-OS
        call) the next time it is resumed."""
        vt.killed = True

    def reap(self, vt):
        """Unwind a killed vthread now (manual mode / teardown)."""
        guard = 0
        while vt.state == 'parked':
            vt.killed = True
            self._resume(vt)
            guard += 1
            if guard > 10000:
                raise HarnessError('cannot unwind %r' % vt)

    def abandon(self):
        self.auto = False
        for vt in self.threads:
            if vt.state != 'done':
                self.reap(vt)

    # ------------------------------------------------------------ auto run
    def live(self):
        return [t for t in self.threads if t.state != 'done']

    def run(self, until=None):
        """Schedule until all non-daemon vthreads are done (status 'done'),
        nothing can move ('deadlock'), or a horizon is hit.  ``until`` is an
        optional predicate checked before every step."""
        self._until = until
        self.status = None
        self.auto = True
        try:
            nxt = self._pick()
            if nxt is not None:
                nxt[0].wake = nxt[1]
                nxt[0].baton.release()
                self._wait_ctl('run')
        finally:
            self.auto = False
        if self.error is not None:
            err, self.error = self.error, None
            raise err
        return self.status

    def _pick(self):
        try:
            r = self._pick1()
        except BaseException as exc:       # noqa
            self.error = exc
            self.status = 'error'
            return None
        if r is not None:
            self.last = r[0]
            self.steps += 1
            if self.optrace is not None:
                p = r[0].pending
                self.optrace.append((round(self.now - self.t0, 3), r[0].name,
                                     p.op if p else None,
                                     repr(p.obj)[:60] if p else None, r[1]))
        return r

    def _pick1(self):
        while True:
            if self._until is not None and self._until():
                self.status = 'until'
                return None
            live = self.live()
            if not any(not t.daemon for t in live):
                self.status = 'done'
                return None
            if self.steps >= self.max_steps:
                self.status = 'step-horizon'
                return None
            now = self.now
            en = [t for t in live if t.is_enabled(now)]
            if not en:
                dls = [t.pending.deadline for t in live
                       if t.pending.deadline is not None]
                if not dls:
                    self.status = 'deadlock'
                    return None
                nxt = min(dls)
                if self.horizon is not None and nxt > self.horizon:
                    self.status = 'time-horizon'
                    return None
                self.now = nxt
                continue
            last = self.last
            running_enabled = last is not None and last in en
            if running_enabled and en[0] is not last:
                en.remove(last)
                en.insert(0, last)
            elif self.rr and last is not None and not running_enabled:
                n_ = len(self.threads) + 1
                en.sort(key=lambda t: (t.tid - last.tid - 1) % n_)
            alts = [(t, None) for t in en]
            costs = [0] + [1 if (running_enabled or self.delay_model)
                           else 0] * (len(en) - 1)
            if self.timer_deviation:
                for t in live:
                    if t.state == 'parked' and t not in en and \
                            t.pending.deadline is not None and (
                            self.horizon is None or
                            t.pending.deadline <= self.horizon):
                        alts.append((t, TIMEOUT))
                        costs.append(1)
            if len(alts) == 1:
                k = 0
            else:
                k = self.choices.next(
                    len(alts), costs,
                    'sched:' + ','.join('%d%s' % (t.tid, 'T' if w else '')
                                        for t, w in alts))
            vt, w = alts[k]
            if w is TIMEOUT:
                self.now = max(self.now, vt.pending.deadline)
                return vt, TIMEOUT
            p = vt.pending
            wake = None
            if (not vt.killed and p.deadline is not None and
                    self.now >= p.deadline and
                    (p.enabled is None or not p.enabled())):
                wake = TIMEOUT
            return vt, wake

    def describe(self):
        return [repr(t) for t in self.threads]
