"""vmc -- bounded exhaustive exploration of the real billiard code over a
virtual OS.  See /verif/DESIGN.md."""
