#!/usr/bin/env python3
"""Prints the markdown table of /verif/seeded/*/meta.json (for DESIGN.md)."""
import glob
import json
import os

rows = []
for d in sorted(glob.glob('/verif/seeded/*/')):
    sid = os.path.basename(d.rstrip('/'))
    m = json.load(open(d + 'meta.json'))
    c = m.get('confirmed', {})
    caught = [k for k, v in m.get('checks', {}).items() if v['rc'] == 1]
    missed = [k for k, v in m.get('checks', {}).items() if v['rc'] != 1]
    rows.append((sid, m.get('property'), (m.get('summary') or '')[:150].replace('|', '/').replace('\n', ' '),
                 'yes' if c.get('ok') else 'no (%s)' % (c.get('suite') or c.get('why') or '')[:40],
                 ', '.join(caught) or '-', ', '.join(missed) or '-'))
print('| seed | property | change (abridged) | confirmed | caught by | run but silent |')
print('|---|---|---|---|---|---|')
for r in rows:
    print('| %s | %s | %s | %s | %s | %s |' % r)
n = len(rows)
print()
print('%d seeds; %d caught by at least one check; %d not caught' % (
    n, sum(1 for r in rows if r[4] != '-'), sum(1 for r in rows if r[4] == '-')))
