"""C11 -- worker restarts are rate limited and the budget is restored.
(a) explicit-state BFS on the real restart_state against a reference model
    written from the property statement;
(b) L2: which exits consult the limiter, and that a refusal happens instead
    of the fork;
(c) the Supervisor's start-up burst (real Supervisor.body as a vthread)."""
import itertools

from vmc import vctx  # noqa: F401
from vmc import par, report
import billiard.pool as bp
from billiard.common import restart_state
from billiard.exceptions import RestartFreqExceeded


class Ref:
    """At most maxR admissions per window of maxT seconds opened by the
    first restart; the count starts afresh when the window has expired or a
    job was accepted."""

    def __init__(self, maxR, maxT):
        self.maxR, self.maxT = maxR, maxT
        self.start = None
        self.count = 0

    def restart(self, now):
        if self.start is not None and now - self.start >= self.maxT:
            self.start, self.count = now, 0        # expired: a new window
        elif self.maxR and self.count >= self.maxR:
            self.count = 0
            return False                           # refused
        if self.start is None:
            self.start = now
        self.count += 1
        return True

    def accepted(self):
        self.count = 0


def bfs_limiter(arg):
    maxR, maxT, depth = arg
    gaps = [0.0, maxT / 2.0, maxT - 0.001, maxT, 2.0 * maxT]
    evs = [('r', g) for g in gaps] + [('a', 0.0)]
    states = set()
    transitions = 0
    outcomes = set()
    front = [()]
    viol = None
    for d in range(depth):
        nxt = []
        for hist in front:
            for ev in evs:
                h2 = hist + (ev,)
                real = restart_state(maxR, maxT)
                ref = Ref(maxR, maxT)
                now = 1000.0
                obs = []
                for kind, gap in h2:
                    now += gap
                    if kind == 'a':
                        real.R = 0               # what on_ack does
                        ref.accepted()
                        obs.append('a')
                        continue
                    try:
                        real.step(now)
                        got = True
                    except RestartFreqExceeded:
                        got = False
                    exp = ref.restart(now)
                    obs.append(got)
                    if got != exp and viol is None:
                        viol = (list(h2), 'restart_state(%r, %r): restart at '
                                '+%.3f %s, reference says %s (history %r)' % (
                                    maxR, maxT, now - 1000.0,
                                    'admitted' if got else 'refused',
                                    'admitted' if exp else 'refused', h2))
                transitions += 1
                outcomes.add(tuple(obs)[-3:])
                # (the reference's state belongs to the key: histories that
                # leave the real object in one state but the reference in
                # different ones have different futures)
                key = (real.R, None if real.T is None else round(now - real.T, 6),
                       ref.count,
                       None if ref.start is None else round(now - ref.start, 6))
                if (d, key) not in states:
                    states.add((d, key))
                    nxt.append(h2)
        front = nxt
    return dict(states=len(states), transitions=transitions,
                outcomes=sorted(map(repr, outcomes)), violation=viol,
                sample=[list(e) for e in front[0]] if front else [])


# ------------------------------------------------------------- L2 oracle
def oracle(env, ev):
    if not ev:
        return None
    ref = getattr(env, '_ref', None)
    if ref is None:
        rs = env.pool.restart_state
        ref = env._ref = Ref(rs.maxR, rs.maxT)
        env._acks_seen = 0
    if ev[0] == 'deliver':
        m = getattr(env, 'last_delivered', None)
        if m is not None and m[0] == bp.ACK:
            ref.accepted()        # a job was accepted: the count restarts
    if ev[0] == 'tick':
        log = getattr(env, 'tick_log', [])
        reaped = getattr(env, 'tick_reaped', [])
        ctl0 = getattr(env, 'tick_reaped_ctl', [])
        if len(ctl0) != len(reaped):
            ctl0 = [False] * len(reaped)
        # (a worker shrink() told to exit is not an abnormal exit)
        abnormal = [s for s, c in zip(reaped, ctl0)
                    if s not in (0, bp.EX_RECYCLE) and not c]
        steps = [e for e in log if e[0] == 'step']
        raised = [e for e in log if e == ('step', False)]
        # refusal happens instead of the fork
        seen_raise = False
        for e in log:
            if e == ('step', False):
                seen_raise = True
            elif e[0] == 'fork' and seen_raise:
                return 'a worker was forked after RestartFreqExceeded'
        missing = getattr(env, 'tick_missing', None)
        if missing == len(reaped) and not raised:
            if len(steps) != len(abnormal):
                return ('%d worker(s) exited abnormally %r (all reaped %r) '
                        'but the limiter was consulted %d times' % (
                            len(abnormal), abnormal, reaped, len(steps)))
        if not abnormal and steps and missing == len(reaped):
            return ('clean/recycle exits %r consumed restart budget' %
                    (reaped,))
        ctl = getattr(env, 'tick_reaped_ctl', [])
        own = [s_ for s_, c_ in zip(reaped, ctl)
               if s_ not in (0, bp.EX_RECYCLE) and not c_]
        if len(ctl) == len(reaped) and not own and steps and \
                not env.grown and missing <= len(reaped):
            # the only non-clean exits of this round are workers shrink()
            # told to exit (not replaced); what is replaced exited with the
            # clean / recycle status
            return ('restart budget consumed although every worker replaced '
                    'in this round had exited with the clean or recycle '
                    'status (reaped %r, told to exit by shrink: %r)' % (
                        reaped, ctl),
                    'F45:shrunk-worker-exit-charged-to-a-recycled-replacement')
        for e in steps:
            exp = ref.restart(env.world.now)
            if exp != e[1]:
                return ('limiter %s a restart at %.3f, the reference model '
                        '%s it (budget %r per %rs)' % (
                            'admitted' if e[1] else 'refused', env.world.now,
                            'admits' if exp else 'refuses', ref.maxR,
                            ref.maxT))
    return None


def configs(tier):
    T = tier == 'thorough'
    out = []
    d = 8 if not T else 10
    ms = 30000 if not T else 300000
    ap = dict(kind='apply', fn='ok')
    A = dict(die=(1, -9, 0, bp.EX_RECYCLE), die_idle=True, put_faults=(),
             max_adv=3, restart_window=True, discard=True)
    out.append(dict(name='shrink+recycle', procs=2, jobs=[ap, ap],
                    pool=dict(max_restarts=1, max_restart_freq=10,
                              maxtasksperchild=1, lost_worker_timeout=3.0),
                    alphabet=dict(die=(), put_faults=(), max_adv=1,
                                  shrink=True, restart_window=True),
                    depth=d + 1, max_states=ms, final='harness.c01:final',
                    oracle='harness.c11:oracle'))
    for name, procs, pk in (
            ('R1/T1', 2, dict(max_restarts=1, max_restart_freq=1)),
            ('R2/T10', 2, dict(max_restarts=2, max_restart_freq=10)),
            ('R1/T1/1proc', 1, dict(max_restarts=1, max_restart_freq=1)),
            ('R2/T1/quota', 2, dict(max_restarts=2, max_restart_freq=1,
                                    maxtasksperchild=1))):
        out.append(dict(name=name, procs=procs, jobs=[ap, ap],
                        pool=dict(pk, lost_worker_timeout=3.0), alphabet=A,
                        depth=d, max_states=ms, oracle='harness.c11:oracle',
                        track_ticks=True))
    return out


# --------------------------------------------------- (c) start-up burst
def burst(arg):
    """Real Supervisor.body as a vthread; every worker the pool forks dies
    at once with status 1.  Counts forks admitted before the limiter stops
    the storm, and checks the configured limiter is restored afterwards."""
    size, rounds_alive = arg
    from vmc import vos, vproc, sched as vs
    vproc.bind()
    sched = vs.Scheduler(vs.Choices(), horizon=1000.0 + 30.0,
                         timer_deviation=False, max_steps=200000)
    out = dict(size=size)
    with vos.fresh(sched) as world:
        forks = []
        born = {}

        def launch(popen, process_obj, vp):
            forks.append(world.now)
            born[vp.pid] = len(forks)
        vproc.launcher = launch
        vos.deliver_signal = vproc.deliver_signal
        try:
            pool = bp.Pool(size, threads=False, context=vproc.VPoolContext(),
                           max_restarts=3, max_restart_freq=1)
            configured = pool.restart_state
            first = len(forks)
            raised = []
            during = []
            orig = pool._maintain_pool

            def maintain():
                during.append(pool.restart_state)
                # every live worker dies with status 1 before this round
                for p in list(pool._pool):
                    vp = world.procs[p.pid]
                    if vp.state == 'running':
                        vos.proc_exit(p.pid, 1)
                try:
                    return orig()
                except RestartFreqExceeded:
                    raised.append(world.now)
                    raise
            pool._maintain_pool = maintain
            # keep close()/join() of the error path from running the whole
            # shutdown machinery: the burst is what is examined here
            pool.close = lambda: None
            pool.join = lambda: None
            sup = pool._worker_handler

            def body():
                try:
                    sup.body()
                except RestartFreqExceeded:
                    return 'raised'
                return 'ended'
            vt = sched.spawn(body, 'Supervisor', pid=vos.MAIN_PID)
            sched.run(until=lambda: world.now > 1000.0 + 2.5 or
                      vt.state == 'done')
            t0 = 1000.0 + 0.8
            in_burst = [t for t in forks[first:] if t0 - 1e-9 <= t < t0 + 1.0]
            out.update(status=sched.status, result=vt.result,
                       forks_after_start=len(in_burst),
                       forks_total=len(forks) - first,
                       raised_at=[round(t - 1000.0, 3) for t in raised],
                       burst_limiter=[(r.maxR, r.maxT) for r in during[:1]],
                       restored=pool.restart_state is configured,
                       rounds=len(during))
            pool._terminate.cancel()
        finally:
            vproc.launcher = None
            vctx.reset_billiard_globals()
    v = None
    if out['burst_limiter'] and out['burst_limiter'][0] != (10 * size, 1):
        v = 'start-up burst limiter is %r, expected (%d, 1)' % (
            out['burst_limiter'][0], 10 * size)
    elif out['forks_after_start'] > 10 * size:
        v = ('%d restarts admitted during the start-up burst of a %d-slot '
             'pool (limit %d)' % (out['forks_after_start'], size, 10 * size))
    elif not out['restored']:
        v = 'the configured limiter was not restored after the burst'
    out['violation'] = v
    return out


def main(tier, seed, only=None):
    from harness import l2run

    def extra(rep):
        T = tier == 'thorough'
        depth = 7 if not T else 9
        items = [(R, mT, depth) for R in (1, 2, 3, None, 0) for mT in (1, 10)]
        for (R, mT, _), r in zip(items, par.pmap('harness.c11:bfs_limiter',
                                                 items)):
            rep.part('limiter(R=%s,T=%s)' % (R, mT), states=r['states'],
                     transitions=r['transitions'],
                     evaluations=r['transitions'], outcomes=r['outcomes'],
                     samples=[r['sample']], depth=depth)
            if r['violation']:
                rep.violation(r['violation'][1],
                              dict(harness='c11-limiter', maxR=R, maxT=mT,
                                   history=r['violation'][0]))
        for r in par.pmap('harness.c11:burst', [(1, 0), (2, 0), (3, 0)]):
            rep.part('burst/size%d' % r['size'], evaluations=1, states=1,
                     transitions=r['rounds'],
                     outcomes=[(r['forks_after_start'], tuple(r['raised_at']),
                                r['restored'])], samples=[r])
            if r['violation']:
                rep.violation(r['violation'], dict(harness='c11-burst',
                                                   size=r['size']))
    return l2run.run('C11', tier, seed, configs(tier), [
        'virtual clock starts at 1000 s: restart_state treats T == 0.0 as '
        '"no window" and monotonic() never reads exactly 0.0'], only, extra)


def replay(rp):
    if rp.get('harness') == 'c11-limiter':
        real = restart_state(rp['maxR'], rp['maxT'])
        ref = Ref(rp['maxR'], rp['maxT'])
        now = 1000.0
        bad = 0
        for kind, gap in rp['history']:
            now += gap
            if kind == 'a':
                real.R = 0
                ref.accepted()
                print('accept')
                continue
            try:
                real.step(now)
                got = True
            except RestartFreqExceeded:
                got = False
            exp = ref.restart(now)
            print('restart at +%.3f: real %s reference %s' % (
                now - 1000.0, got, exp))
            bad += got != exp
        return 1 if bad else 0
    if rp.get('harness') == 'c11-burst':
        r = burst((rp['size'], 0))
        print(r)
        return 1 if r['violation'] else 0
    from harness import l2run
    return l2run.replay('C11', rp, configs('thorough') + configs('quick'))
