"""C12 -- exceptions and tracebacks cross the process boundary intact.

Sequential, complete enumeration (no schedules), DESIGN.md section 5 / C12.

Part (a) "einfo": exception class x argument tuple x call-chain depth x every
sequence of <= 3 pickle round trips (each by ``pickle`` or by billiard's
``ForkingPickler``) on the real ``billiard.einfo.ExceptionInfo`` built inside
the ``except`` block exactly as ``Worker.workloop`` does.

Part (b) "worker": the real ``billiard.pool.Worker.__call__`` / ``workloop``
driven sequentially as a virtual process over scripted queues whose ``put``
really pickles with ``ForkingPickler.dumps``; tasks return values that fail to
pickle at nesting depth 0..3, raise every exception class, or recurse without
bound; all task sequences of length 1..3 over a mixed alphabet.

Depth convention.  ``d`` = number of frames *below the catcher* (the function
holding the ``try``), the last one being the named raising function
``c12_raise_here``.  The traceback therefore has L = d + 1 entries in part (a)
(catcher + d) and L = d + 2 in part (b) (workloop + task function + d).

Bound on the picklable traceback (read off einfo.Traceback.__init__):
``Traceback`` recurses while ``depth <= max_frames`` starting at depth 0, so at
most max_frames + 2 real entries are copied, then one ``_Truncated`` marker:
chain length <= DEFAULT_MAX_FRAMES + 3, however deep the original.
"""
import collections
import pickle
import random
import sys
import threading
import traceback

from vmc import vctx, vos, par, report
from vmc.sched import ProcessKilled
from billiard import einfo as beinfo
from billiard import pool as bpool
from billiard.reduction import ForkingPickler

CTX = vctx.VContext()
LIMIT = beinfo.DEFAULT_MAX_FRAMES
TB_BOUND = LIMIT + 3
RAISER = 'c12_raise_here'
RUNAWAY = 'c12_runaway'
MAX_RT = 3


class HarnessBug(Exception):
    """The harness itself did not produce the case it meant to (never a
    verdict about billiard)."""


# ------------------------------------------------------------ the input table
class C12Custom(Exception):
    pass


class C12Base(BaseException):
    pass


CLASSES = collections.OrderedDict([
    ('ValueError', ValueError), ('KeyError', KeyError),
    ('C12Custom', C12Custom), ('C12Base', C12Base),
    ('SystemExit', SystemExit), ('KeyboardInterrupt', KeyboardInterrupt),
    ('MemoryError', MemoryError), ('RecursionError', RecursionError),
])
ARGS = [(), (1,), ('x', 2), ((1, ('a', (2.5, None))),), (1, 'y', (2, (3,))),
        # a message that looks like the quoting a traceback text is shipped in
        ('he said \"\"\"stop\"\"\" and \'\'\'go\'\'\'\n\"\"\"',)]
DEPTHS_A = [1, 2, 3, LIMIT - 1, LIMIT, LIMIT + 1, LIMIT + 2, LIMIT + 10]
PICKLERS = collections.OrderedDict([
    ('pickle', lambda o: pickle.dumps(o)),
    ('forking', lambda o: bytes(ForkingPickler.dumps(o))),
])
PICKLERS_THOROUGH = collections.OrderedDict(PICKLERS)
PICKLERS_THOROUGH['pickle2'] = lambda o: pickle.dumps(o, 2)
PICKLERS_THOROUGH['forking5'] = lambda o: bytes(ForkingPickler.dumps(o, 5))


def c12_raise_here(cls, args):
    raise cls(*args)


def c12_chain(k, cls, args):
    if k <= 1:
        return c12_raise_here(cls, args)
    return c12_chain(k - 1, cls, args)


def c12_entry(d, cls, args):
    """(fn, fnargs): calling fn(*fnargs) runs a real call chain with exactly
    d frames below the caller, the last being c12_raise_here."""
    if d == 1:
        return c12_raise_here, (cls, args)
    return c12_chain, (d - 1, cls, args)


def c12_runaway(n=0):
    return c12_runaway(n + 1)


# --------------------------------------------------------- observing an einfo
def real_exc(ei):
    """ExceptionInfo.exception is an ExceptionWithTraceback wrapper (``.exc``
    = the real exception) until it crosses a pickle boundary, where
    ``rebuild_exc`` hands back the real exception object."""
    e = ei.exception
    if isinstance(e, beinfo.ExceptionWithTraceback):
        return e.exc
    return e


def real_tb_len(tb):
    n = 0
    while tb is not None:
        n += 1
        tb = tb.tb_next
    return n


def tb_shape(tb):
    """(python type, file, function, line) of every entry of the chain."""
    out = []
    cap = 20 * (TB_BOUND + 10)
    while tb is not None:
        if len(out) > cap:
            raise ValueError('traceback chain longer than %d (cycle?)' % cap)
        code = tb.tb_frame.f_code
        out.append((type(tb).__name__, code.co_filename, code.co_name,
                    tb.tb_lineno))
        tb = tb.tb_next
    return tuple(out)


def observe(ei):
    """Everything the property compares; raises if the record cannot be
    inspected / formatted."""
    real = real_exc(ei)
    fmt_exc = traceback.format_exception(ei.type, ei.exception, ei.tb)
    fmt_tb = traceback.format_tb(ei.tb)
    if not (isinstance(fmt_exc, list) and fmt_exc and
            all(isinstance(s, str) for s in fmt_exc)):
        raise ValueError('format_exception returned %r' % (fmt_exc,))
    if not (isinstance(fmt_tb, list) and fmt_tb and
            all(isinstance(s, str) for s in fmt_tb)):
        raise ValueError('format_tb returned %r' % (fmt_tb,))
    return dict(type=ei.type, etype=type(real), eargs=real.args,
                text=ei.traceback, shape=tb_shape(ei.tb),
                fmt_tb=tuple(fmt_tb),
                cause=type(getattr(real, '__cause__', None)).__name__,
                wrapper=type(ei.exception).__name__)


COMPARED = ('type', 'etype', 'eargs', 'text', 'shape', 'fmt_tb')


def _brief(v, n=160):
    s = repr(v)
    return s if len(s) <= n else s[:n] + '...<%d chars>' % len(s)


def check_record(ei, exp_type, exp_args, fn_name, where):
    """Clauses that hold for one record on its own.  Returns (obs, msgs)."""
    try:
        obs = observe(ei)
    except BaseException as exc:
        return None, ['%s: record cannot be inspected/formatted by the '
                      'traceback module: %s: %s' % (
                          where, type(exc).__name__, _brief(str(exc)))]
    msgs = []
    if obs['type'] is not exp_type:
        msgs.append('%s: einfo.type is %r, raised %r' % (
            where, obs['type'], exp_type))
    if obs['etype'] is not exp_type:
        msgs.append('%s: exception object is a %r, raised %r' % (
            where, obs['etype'], exp_type))
    if exp_args is not None and obs['eargs'] != exp_args:
        msgs.append('%s: exception args %s, raised with %s' % (
            where, _brief(obs['eargs']), _brief(exp_args)))
    if not isinstance(obs['text'], str) or \
            ('in %s\n' % fn_name) not in obs['text']:
        msgs.append('%s: traceback text does not name the raising function '
                    '%s: %s' % (where, fn_name, _brief(obs['text'], 300)))
    if len(obs['shape']) > TB_BOUND:
        msgs.append('%s: einfo.tb chain has %d entries > DEFAULT_MAX_FRAMES'
                    '+3 = %d' % (where, len(obs['shape']), TB_BOUND))
    return obs, msgs


def compare(obs, ref, where, refname):
    msgs = []
    for k in COMPARED:
        if obs[k] != ref[k]:
            msgs.append('%s: %s differs from %s: %s != %s' % (
                where, k, refname, _brief(obs[k]), _brief(ref[k])))
    return msgs


# ------------------------------------------------------------------ part (a)
class BuildFailed:
    """ExceptionInfo() itself raised inside the except block."""

    def __init__(self, exc):
        self.msg = '%s: %s' % (type(exc).__name__, _brief(str(exc)))


def _make_einfo():
    # called inside the except block, as workloop does: sys.exc_info() is
    # the task's exception
    try:
        return beinfo.ExceptionInfo()
    except BaseException as exc:
        return BuildFailed(exc)


def c12_retry(cls, args):
    """Retry loop that gives up with the *first* error: the traceback of
    the saved exception still holds this frame at the call below, which lies
    after the ``raise saved`` statement this frame executes when it is
    re-raised (a live frame that has moved on)."""
    saved = None
    for attempt in range(2):
        if saved is not None:
            raise saved
        try:
            c12_raise_here(cls, args)
        except BaseException as exc:   # noqa
            saved = exc


# two byte-identical functions (same name, body, first line) living in
# different files: code objects that compare equal although they are not the
# same code
_TWIN_SRC = 'def c12_raise_here(cls, args):\n    raise cls(*args)\n'
_TWIN_A, _TWIN_B = {}, {}
exec(compile(_TWIN_SRC, '/c12/vendored_a/raiser.py', 'exec'), _TWIN_A)
exec(compile(_TWIN_SRC, '/c12/vendored_b/raiser.py', 'exec'), _TWIN_B)
_REAL = {}


def build_einfo(clsname, argi, depth):
    """Raise through a real call chain and build ExceptionInfo() inside the
    except block (what workloop does).  Returns (einfo, caught type, caught
    args, real traceback length, raising function name)."""
    if depth == 'rec':
        try:
            c12_runaway()
        except BaseException as exc:
            ei = _make_einfo()
            caught = (type(exc), exc.args, real_tb_len(exc.__traceback__))
            _REAL['shape'] = tb_shape(exc.__traceback__)
        if caught[0] is not RecursionError or caught[2] < LIMIT + 100:
            raise HarnessBug('runaway recursion gave %r' % (caught,))
        return (ei,) + caught + (RUNAWAY,)
    cls, args = CLASSES[clsname], ARGS[argi]
    if depth == 'twin':
        # an earlier failure went through the twin in file A; this one goes
        # through the twin in file B
        try:
            _TWIN_A['c12_raise_here'](cls, args)
        except BaseException:          # noqa
            _make_einfo()
        try:
            _TWIN_B['c12_raise_here'](cls, args)
        except BaseException as exc:   # noqa
            ei = _make_einfo()
            caught = (type(exc), exc.args, real_tb_len(exc.__traceback__))
            _REAL['shape'] = tb_shape(exc.__traceback__)
        return (ei,) + caught + (RAISER,)
    if depth == 'retry':
        try:
            c12_retry(cls, args)
        except BaseException as exc:   # noqa
            ei = _make_einfo()
            caught = (type(exc), exc.args, real_tb_len(exc.__traceback__))
            _REAL['shape'] = tb_shape(exc.__traceback__)
        if caught[:2] != (cls, args):
            raise HarnessBug('retry case produced %r' % (caught,))
        return (ei,) + caught + (RAISER,)
    fn, fnargs = c12_entry(depth, cls, args)
    try:
        fn(*fnargs)
    except BaseException as exc:
        ei = _make_einfo()
        caught = (type(exc), exc.args, real_tb_len(exc.__traceback__))
        _REAL['shape'] = tb_shape(exc.__traceback__)
    if caught != (cls, args, depth + 1):
        raise HarnessBug('case %r produced %r' % (
            (clsname, argi, depth), caught))
    return (ei,) + caught + (RAISER,)


def run_a(case, picklers=None, verbose=False):
    """One (class, args, depth): the whole tree of <= MAX_RT round trips."""
    clsname, argi, depth = case
    picklers = picklers or PICKLERS
    viol = []                                  # (msg, path)
    evals = [0]
    ei, etype, eargs, real_len, fn = build_einfo(clsname, argi, depth)
    if isinstance(ei, BuildFailed):
        msg = ('ExceptionInfo() could not be built for %s%s with %d traceback '
               'entries: %s' % (etype.__name__, _brief(eargs), real_len,
                                ei.msg))
        return dict(evals=1, outcome=('no-record',),
                    viol=[(msg, dict(harness='c12', part='a',
                                     case=list(case), path=[]))])
    obs0, msgs = check_record(ei, etype, eargs, fn, 'n=0')
    evals[0] += 1
    if obs0 is not None:
        # the picklable stand-in describes the real traceback: same file,
        # function and line, entry by entry, up to where it is cut off
        for i, (got, real) in enumerate(zip(obs0['shape'], _REAL['shape'])):
            if got[0] == '_Truncated':
                break
            if got[1:] != real[1:]:
                msgs.append('n=0: entry %d of einfo.tb is %r, the real '
                            'traceback has %r there' % (i, got[1:], real[1:]))
                break
    viol += [(m, []) for m in msgs]
    causes = {}
    seen = set()          # (type name, number of args) read back, all n

    def walk(prev, prev_obs, path):
        if len(path) == MAX_RT:
            return
        for pk, dumps in picklers.items():
            p = path + [pk]
            where = 'n=%d via %s' % (len(p), '>'.join(p))
            evals[0] += 1
            try:
                cur = pickle.loads(dumps(prev))
            except BaseException as exc:
                viol.append(('%s: ExceptionInfo does not pickle: %s: %s' % (
                    where, type(exc).__name__, _brief(str(exc))), p))
                continue
            obs, msgs = check_record(cur, etype, eargs, fn, where)
            if obs is not None:
                if obs0 is not None:
                    msgs += compare(obs, obs0, where, 'the original')
                if prev_obs is not None and len(p) >= 2:
                    msgs += compare(obs, prev_obs, where,
                                    'the previous round trip')
                causes.setdefault(len(p), set()).add(
                    (obs['wrapper'], obs['cause']))
                seen.add((obs['etype'].__name__, len(obs['eargs'])))
            viol.extend((m, p) for m in msgs)
            if verbose:
                print(where, 'ok' if not msgs else msgs)
            if obs is not None:
                walk(cur, obs, p)
    walk(ei, obs0, [])
    if obs0 is None:
        outcome = ('uninspectable',)
    else:
        # observed values only (read back from the records, not the inputs)
        shape = obs0['shape']
        outcome = (
            tuple(sorted(seen)), 'real>limit' if depth == 'rec' else real_len,
            len(shape), shape[-1][0], obs0['wrapper'],
            tuple(sorted((n, tuple(sorted(c))) for n, c in causes.items())))
    if verbose:
        print('case', case, 'real tb entries', real_len, 'outcome', outcome)
        if obs0 is not None:
            print(obs0['text'][-600:])
    return dict(evals=evals[0], outcome=outcome,
                viol=[(m, dict(harness='c12', part='a', case=list(case),
                               path=p)) for m, p in viol])


def cases_a():
    out = [(c, a, d) for c in CLASSES for a in range(len(ARGS))
           for d in DEPTHS_A]
    out.append(('RecursionError', None, 'rec'))
    out += [(c, a, 'retry') for c in CLASSES for a in range(len(ARGS))]
    out += [(c, 1, 'twin') for c in ('ValueError', 'C12Base')]
    return out


# ------------------------------------------------------------------ part (b)
class C12Unreducible:
    def __reduce__(self):
        raise RuntimeError('c12: this object refuses to be pickled')


class C12UnreducibleOS:
    def __reduce__(self):
        raise FileNotFoundError(2, 'c12: no such file', '/nonexistent/c12')


class C12UnreducibleEOF:
    def __reduce__(self):
        raise EOFError('c12: ran out of input while pickling')


class C12UnreducibleValue:
    def __reduce__(self):
        raise ValueError('c12: value cannot be pickled')


def _leaf(kind):
    if kind == 'reduce-os':
        return C12UnreducibleOS()
    if kind == 'reduce-eof':
        return C12UnreducibleEOF()
    if kind == 'reduce-value':
        return C12UnreducibleValue()
    if kind == 'lambda':
        return lambda: 0
    if kind == 'tlock':
        return threading.Lock()
    if kind == 'block':
        return CTX.Lock()          # billiard lock: pickles only while spawning
    if kind == 'reduce':
        return C12Unreducible()
    if kind == 'deep':
        # plain data, nested deeper than the interpreter recurses: neither
        # pickle nor repr() can walk it
        v = []
        for _ in range(sys.getrecursionlimit() * 2):
            v = [v]
        return v
    raise HarnessBug(kind)


LEAVES = ['lambda', 'tlock', 'block', 'reduce', 'reduce-os', 'reduce-eof',
          'reduce-value', 'deep']


def build_unpicklable(kind, shape):
    """``shape``: containers from the outside in, 'l' list / 'd' dict /
    't' tuple; nesting depth = len(shape)."""
    v = _leaf(kind)
    for c in reversed(shape):
        if c == 'l':
            v = [1, v, 'after']
        elif c == 'd':
            v = {'a': 0, 'k': v}
        else:
            v = ('t', v)
    return v


def all_shapes(maxdepth=3):
    out = ['']
    layer = ['']
    for _ in range(maxdepth):
        layer = [s + c for s in layer for c in 'ldt']
        out += layer
    return out


OK_VALUES = [42, {'k': [1, (2, 'three')]}]


# task functions: picklable by reference, run inside the worker
def c12_task_ok(vi):
    return OK_VALUES[vi]


def c12_task_unp(kind, shape):
    return build_unpicklable(kind, shape)


def c12_task_raise(clsname, argi, depth):
    fn, fnargs = c12_entry(depth, CLASSES[clsname], ARGS[argi])
    return fn(*fnargs)


def c12_task_raise_unp():
    raise ValueError(lambda: 0)        # the failure record itself won't pickle


def c12_task_runaway():
    return c12_runaway()


def task_of(sym):
    kind = sym[0]
    if kind == 'ok':
        return c12_task_ok, (sym[1],)
    if kind == 'unp':
        return c12_task_unp, (sym[1], sym[2])
    if kind == 'raise':
        return c12_task_raise, (sym[1], sym[2], sym[3])
    if kind == 'raise-unp':
        return c12_task_raise_unp, ()
    if kind == 'runaway':
        return c12_task_runaway, ()
    raise HarnessBug(sym)


class _End:
    """Stub connection end: Worker only asks for fileno()/close()/send/recv
    attributes (and poll() on the task queue's reader)."""

    def __init__(self, fd, q=None):
        self._fd, self._q, self.closed = fd, q, False

    def fileno(self):
        return self._fd

    def close(self):
        self.closed = True

    def send(self, obj):
        raise HarnessBug('worker wrote to the parent end')

    recv = send

    def poll(self, timeout=None):
        if self._q.items:
            return True
        # the script is exhausted: the parent has gone away
        self._q.starved += 1
        raise EOFError('c12: task queue closed by parent')


class InQ:
    def __init__(self, blobs):
        self.items = collections.deque(blobs)
        self.starved = 0
        self._reader = _End(vos.VFD_BASE + 11, self)
        self._writer = _End(vos.VFD_BASE + 12)

    def get(self):
        return pickle.loads(self.items.popleft())


class OutQ:
    def __init__(self):
        self.blobs = []
        self._reader = _End(vos.VFD_BASE + 13)
        self._writer = _End(vos.VFD_BASE + 14)

    def put(self, obj):
        # pickling happens first, exactly as Connection.send does: a value
        # that cannot be serialised fails here and nothing is written
        self.blobs.append(bytes(ForkingPickler.dumps(obj)))


def drive_worker(syms):
    """Run the real Worker over the scripted task sequence.  Returns
    (messages, exit status, escaped exception or None, tasks left unread)."""
    with vos.fresh(None):
        try:
            proc = vos.new_proc()
            blobs = []
            for k, sym in enumerate(syms):
                fun, args = task_of(sym)
                blobs.append(bytes(ForkingPickler.dumps(
                    (bpool.TASK, (50 + 7 * k, 3 + k, fun, args, {})))))
            inq, outq = InQ(blobs), OutQ()
            saved_exit = sys.exit
            escaped = None
            try:
                with vos.as_process(proc.pid):
                    w = bpool.Worker(inq, outq, None, maxtasks=len(syms),
                                     on_ready_counter=None)
                    try:
                        w()
                    except ProcessKilled:
                        pass                   # os._exit() of the virtual proc
                    except BaseException as exc:
                        escaped = exc
            finally:
                sys.exit = saved_exit
            msgs = []
            for b in outq.blobs:
                try:
                    msgs.append(pickle.loads(b))
                except BaseException as exc:
                    # what the parent's recv() would hit
                    msgs.append(('UNLOADABLE', '%s: %s' % (
                        type(exc).__name__, _brief(str(exc)))))
            return msgs, proc.status, escaped, len(inq.items)
        finally:
            vctx.reset_billiard_globals()


def expected_of(sym):
    kind = sym[0]
    if kind == 'ok':
        return ('value', OK_VALUES[sym[1]])
    if kind in ('unp', 'raise-unp'):
        return ('encoding',)
    if kind == 'raise':
        return ('exc', CLASSES[sym[1]], ARGS[sym[2]], RAISER)
    return ('exc', RecursionError, None, RUNAWAY)


def check_unpicklable_is_unpicklable(sym):
    """Harness sanity: the value really fails in ForkingPickler.dumps with an
    Exception (otherwise the case says nothing)."""
    with vos.fresh(None):
        try:
            v = build_unpicklable(sym[1], sym[2])
            try:
                ForkingPickler.dumps(v)
            except Exception:
                return
            raise HarnessBug('%r pickles' % (sym,))
        finally:
            vctx.reset_billiard_globals()


def run_b(syms, verbose=False):
    syms = [tuple(s) for s in syms]
    viol = []
    msgs, status, escaped, unread = drive_worker(syms)
    if verbose:
        for m in msgs:
            print('MSG', _brief(m, 300))
        print('exit status', status, 'escaped', repr(escaped),
              'unread tasks', unread)
    for m in msgs:
        if m[0] == 'UNLOADABLE':
            viol.append('a message the worker wrote cannot be unpickled by '
                        'the parent: %s' % m[1])
    msgs = [m for m in msgs if m[0] != 'UNLOADABLE']
    stream = [m for m in msgs if m[0] != bpool.DEATH]
    summary = []
    for k, sym in enumerate(syms):
        job, idx = 50 + 7 * k, 3 + k
        tag = 'task %d %r (job %d)' % (k, sym, job)
        pair = stream[2 * k:2 * k + 2]
        readies = [m for m in stream
                   if m[0] == bpool.READY and m[1][0] == job]
        if len(readies) != 1:
            viol.append('%s: %d READY messages for the job (want exactly '
                        'one); stream kinds %r' % (
                            tag, len(readies),
                            [(m[0], m[1][0]) for m in stream]))
        if len(pair) < 2 or pair[0][0] != bpool.ACK or \
                pair[1][0] != bpool.READY or \
                tuple(pair[0][1][:2]) != (job, idx) or \
                tuple(pair[1][1][:2]) != (job, idx):
            viol.append('%s: message stream is not ACK(job) then READY(job) '
                        'at position %d: %r' % (
                            tag, 2 * k,
                            [(m[0],) + tuple(m[1][:2]) for m in stream]))
            summary.append('missing')
            continue
        result = pair[1][1][2]
        exp = expected_of(sym)
        if exp[0] == 'value':
            # not a C12 clause (C02/C03 own it); recorded only
            summary.append('value-ok' if result == (True, exp[1])
                           else 'value-other')
            continue
        if not (isinstance(result, tuple) and len(result) == 2 and
                result[0] is False and
                isinstance(result[1], beinfo.ExceptionInfo)):
            viol.append('%s: READY carries %s, want (False, ExceptionInfo)'
                        % (tag, _brief(result)))
            summary.append('bad-result')
            continue
        ei = result[1]
        if exp[0] == 'encoding':
            real = real_exc(ei)
            if ei.type is not bpool.MaybeEncodingError or \
                    not isinstance(real, bpool.MaybeEncodingError):
                viol.append('%s: unserialisable result reported as %r / %s, '
                            'want MaybeEncodingError' % (
                                tag, ei.type, _brief(real)))
                summary.append('not-encoding-error')
                continue
            ok = True
            for pk, dumps in PICKLERS.items():
                try:
                    again = pickle.loads(dumps(ei))
                    if again.type is not bpool.MaybeEncodingError or \
                            type(real_exc(again)) is not \
                            bpool.MaybeEncodingError:
                        raise ValueError('type became %r' % (again.type,))
                    traceback.format_exception(again.type, again.exception,
                                               again.tb)
                    # type, arguments, text and traceback object unchanged
                    # by further round trips (this record too)
                    o1, o2 = observe(ei), observe(again)
                    for key in COMPARED:
                        if o1[key] != o2[key]:
                            ok = False
                            viol.append(
                                '%s: %s of the MaybeEncodingError record '
                                'changed in one more round trip via %s: %s '
                                '-> %s' % (tag, key, pk, _brief(o1[key]),
                                           _brief(o2[key])),)
                            break
                except BaseException as exc:
                    ok = False
                    viol.append('%s: the MaybeEncodingError record does not '
                                'survive %s: %s: %s' % (
                                    tag, pk, type(exc).__name__,
                                    _brief(str(exc))))
            summary.append('MaybeEncodingError' if ok else 'enc-unpicklable')
        else:
            _, cls, args, fn = exp
            obs, ms = check_record(ei, cls, args, fn, tag)
            viol.extend(ms)
            summary.append(cls.__name__ if not ms else 'bad-' + cls.__name__)
    if len(stream) != 2 * len(syms):
        viol.append('%d ACK/READY messages for %d tasks: %r' % (
            len(stream), len(syms),
            [(m[0],) + tuple(m[1][:2]) for m in stream]))
    if escaped is not None or status == bpool.EX_FAILURE or unread:
        viol.append('worker died instead of going on: exit status %r, '
                    'escaped %r, %d task(s) never read' % (
                        status, escaped, unread))
    outcome = (tuple(summary), status,
               tuple(m[0] for m in msgs))
    if verbose:
        print('outcome', outcome)
    return dict(evals=1, outcome=outcome,
                viol=[(m, dict(harness='c12', part='b',
                               syms=[list(s) for s in syms]))
                      for m in viol])


DEPTHS_B = [1, 3, LIMIT, LIMIT + 1, LIMIT + 10]
REP_SHAPES = ['', 'l', 'dt', 'tld']     # one shape per nesting depth 0..3


def cases_b_table():
    """Every single case once, each followed by a plain task (the worker
    must go on)."""
    out = []
    ok = ('ok', 0)
    for kind in LEAVES:
        for shape in all_shapes(3):
            out.append([('unp', kind, shape), ok])
    for c in CLASSES:
        for a in range(len(ARGS)):
            for d in DEPTHS_B:
                out.append([('raise', c, a, d), ok])
    out.append([('raise-unp',), ok])
    out.append([('runaway',), ok])
    out.append([ok])
    return out


def alphabet_b(tier):
    al = [('ok', 1)]
    for kind in LEAVES:
        for shape in REP_SHAPES:
            al.append(('unp', kind, shape))
    for c in CLASSES:
        al.append(('raise', c, 2, 2))
    al.append(('raise-unp',))
    if tier == 'thorough':
        al.append(('runaway',))
        al.append(('ok', 0))
        for kind in LEAVES:
            for shape in ('d', 't', 'ldt'):
                al.append(('unp', kind, shape))
        for c in CLASSES:
            al.append(('raise', c, 3, LIMIT + 1))
    return al


QUICK3 = [('ok', 1),
          ('unp', 'lambda', ''), ('unp', 'tlock', 'l'), ('unp', 'block', 'dt'),
          ('unp', 'reduce', 'tld'), ('unp', 'lambda', 'tld'),
          ('unp', 'reduce', ''), ('raise-unp',)] + \
    [('raise', c, 2, 2) for c in CLASSES]


def cases_b_seq(tier):
    """All sequences of length 1..3 over the tier's alphabet (quick: length 3
    over the 16-symbol sub-alphabet QUICK3, lengths 1..2 over all 26)."""
    import itertools
    al = alphabet_b(tier)
    out = []
    for n in (1, 2, 3):
        a = QUICK3 if (n == 3 and tier != 'thorough') else al
        out += [list(s) for s in itertools.product(a, repeat=n)]
    return out


# ------------------------------------------------------------------- driver
def _chunk(arg):
    part, tier, cases = arg
    picklers = PICKLERS_THOROUGH if tier == 'thorough' else PICKLERS
    evals, outcomes, viol, sample = 0, set(), [], None
    for case in cases:
        r = run_a(case, picklers) if part == 'a' else run_b(case)
        evals += r['evals']
        outcomes.add(repr(r['outcome']))
        viol += r['viol']
        if sample is None:
            sample = dict(case=case, outcome=repr(r['outcome']))
    return dict(part=part, evals=evals, outcomes=sorted(outcomes),
                viol=viol[:20], nviol=len(viol), sample=sample)


def _chunks(items, n):
    k = max(1, (len(items) + n - 1) // n)
    return [items[i:i + k] for i in range(0, len(items), k)]


def main(tier, seed, only=None):
    rep = report.Report('C12', tier, seed)
    rng = random.Random(seed)
    parts = collections.OrderedDict()
    parts['einfo'] = ('a', cases_a())
    parts['worker-table'] = ('b', cases_b_table())
    parts['worker-sequences'] = ('b', cases_b_seq(tier))
    for sym in set(s for seq in parts['worker-table'][1] for s in seq
                   if s[0] == 'unp'):
        check_unpicklable_is_unpicklable(sym)
    work = []
    for name, (part, cases) in parts.items():
        if only and name not in only:
            continue
        cases = list(cases)
        rng.shuffle(cases)
        for ch in _chunks(cases, par.NPROC * 4):
            work.append((name, (part, tier, ch)))
    rng.shuffle(work)
    res = par.pmap('harness.c12:_chunk', [w[1] for w in work])
    agg = {}
    for (name, (part, _, ch)), r in zip(work, res):
        a = agg.setdefault(name, dict(evals=0, outcomes=set(), cases=0,
                                      samples=[], viol=[]))
        a['evals'] += r['evals']
        a['cases'] += len(ch)
        a['outcomes'] |= set(r['outcomes'])
        a['samples'].append(r['sample'])
        a['viol'] += r['viol']
    nv = 0
    for name in parts:
        if name not in agg:
            continue
        a = agg[name]
        a['samples'].sort(key=repr)
        rep.part(name, evaluations=a['evals'], states=a['cases'],
                 transitions=a['evals'], outcomes=a['outcomes'],
                 samples=a['samples'], cases=a['cases'])
        for msg, rp in sorted(a['viol'], key=repr):
            if nv < 25:
                rep.violation(msg, rp)
                nv += 1
    rep.cov['bounds'] = dict(
        DEFAULT_MAX_FRAMES=LIMIT, tb_chain_bound=TB_BOUND,
        recursionlimit=sys.getrecursionlimit(),
        classes=list(CLASSES), args=[repr(a) for a in ARGS],
        depths_a=[str(d) for d in DEPTHS_A] + ['beyond recursion limit'],
        round_trips='every sequence of 0..%d round trips over picklers %r' % (
            MAX_RT, list(PICKLERS_THOROUGH if tier == 'thorough'
                         else PICKLERS)),
        unpicklable_leaves=LEAVES, nesting='all list/dict/tuple nestings of '
        'depth 0..3 (40 shapes)', depths_b=DEPTHS_B,
        sequence_alphabet=len(alphabet_b(tier)), sequence_lengths=[1, 2, 3],
        length3_alphabet=len(alphabet_b(tier)) if tier == 'thorough'
        else len(QUICK3))
    rep.assume(
        'the worker is driven sequentially as one virtual process over '
        'scripted queues whose put pickles with ForkingPickler.dumps before '
        'anything is written (as Connection.send does); no signals, no '
        'concurrency (C03/C08 own those)',
        'exception classes are importable module-level classes with '
        'picklable argument tuples (the property quantifies over picklable '
        'arguments)',
        'traceback object equality across round trips is judged on the '
        'per-entry (python type, file, function, line) chain and on '
        'traceback.format_tb output',
        'bound on the einfo.tb chain: DEFAULT_MAX_FRAMES + 3 = %d entries '
        '(max_frames + 2 copied frames + one truncation marker)' % TB_BOUND,
        '__cause__ of the rebuilt exception is recorded, not judged: the '
        'statement does not list it among the fields stable under further '
        'round trips (it is RemoteTraceback after the first, None after the '
        'second)')
    return rep.finish()


def replay(rp):
    if rp['part'] == 'a':
        case = tuple(rp['case'])
        r = run_a(case, PICKLERS_THOROUGH, verbose=True)
    else:
        r = run_b(rp['syms'], verbose=True)
    for m, _ in r['viol']:
        print('violation:', m)
    return 1 if r['viol'] else 0
