"""Evidence, replay artefacts, VIOLATION / KNOWN-FINDING lines, exit codes."""
import hashlib
import json
import os
import sys
import time

ROOT = os.path.dirname(os.path.dirname(os.path.abspath(__file__)))
FINDINGS = os.path.join(ROOT, 'known_findings.json')


def load_findings():
    try:
        with open(FINDINGS) as f:
            return json.load(f)['findings']
    except FileNotFoundError:
        return []


def _claimed_level(pid):
    """The level category MANIFEST.json claims for this property."""
    try:
        with open(os.path.join(ROOT, 'MANIFEST.json')) as f:
            for c in json.load(f)['checks']:
                if c['property_id'] == pid:
                    return c['level_claimed']['category']
    except (OSError, ValueError, KeyError):
        pass
    return 'model_checking'


class Report:

    def __init__(self, pid, tier, seed, level=None):
        if level is None:
            level = _claimed_level(pid)
        self.pid, self.tier, self.seed, self.level = pid, tier, seed, level
        self.t0 = time.time()
        self.cov = dict(evaluations=0, states=0, transitions=0,
                        traces_validated_against_impl=0, samples=[],
                        distinct_nontrivial=0, exhaustive=True,
                        parts={}, caps=[])
        self.outcomes = set()
        self.assumptions = []
        self.violations = []
        self.known = {}
        self._known_entries = [
            f for f in load_findings()
            if f.get('property') == pid and f.get('status') == 'known']

    # ---------------------------------------------------------- coverage
    def part(self, name, **kw):
        """Record one sub-harness: evaluations=, states=, transitions=,
        outcomes= (iterable of hashables), samples=[...], capped=bool, plus
        free-form keys kept under coverage.parts[name]."""
        c = self.cov
        c['evaluations'] += int(kw.get('evaluations', 0))
        c['states'] += int(kw.get('states', 0))
        c['transitions'] += int(kw.get('transitions', 0))
        c['traces_validated_against_impl'] += int(kw.get('validated', 0))
        outs = set(repr(o) for o in kw.get('outcomes', ()))
        self.outcomes |= set((name, o) for o in outs)
        for s in kw.get('samples', ())[:3]:
            if len(c['samples']) < 12:
                c['samples'].append({'part': name, 'case': s})
        if kw.get('capped'):
            c['exhaustive'] = False
            c['caps'].append(name)
        info = {k: v for k, v in kw.items()
                if k not in ('outcomes', 'samples')}
        info['distinct_outcomes'] = len(outs)
        c['parts'][name] = info

    def stats(self, name, st, **kw):
        """Record an explore.Stats."""
        self.part(name, evaluations=st.executions,
                  transitions=st.decisions,
                  states=len(st.states) or len(st.outcomes),
                  outcomes=st.outcomes.keys(), samples=st.samples,
                  capped=st.capped, max_depth=st.max_depth,
                  max_cost=st.max_cost, statuses=dict(st.statuses), **kw)

    def assume(self, *texts):
        self.assumptions.extend(texts)

    # -------------------------------------------------------- violations
    def violation(self, msg, replay=None, signature=None):
        """``signature``: root-cause pattern extracted by the harness; when it
        matches a *known* entry of known_findings.json for this property the
        case is reported as KNOWN-FINDING instead."""
        if signature is not None:
            for f in self._known_entries:
                if f['signature'] == signature:
                    self.known.setdefault(f['id'], [f, 0])[1] += 1
                    return False
        replay = dict(replay or {})
        replay.update(property=self.pid, message=msg, tier=self.tier,
                      signature=signature)
        blob = json.dumps(replay, sort_keys=True, default=repr)
        h = hashlib.sha1(blob.encode()).hexdigest()[:10]
        rdir = os.environ.get('VMC_REPLAY_DIR') or os.path.join(ROOT, 'replays')
        os.makedirs(rdir, exist_ok=True)
        path = os.path.join(rdir, '%s-%s.json' % (self.pid, h))
        with open(path, 'w') as f:
            f.write(json.dumps(replay, indent=1, sort_keys=True, default=repr))
        self.violations.append((msg, path))
        return True

    # ------------------------------------------------------------ finish
    def finish(self):
        c = self.cov
        c['distinct_nontrivial'] = len(self.outcomes)
        c['rule'] = c.get('rule') or (
            'every choice sequence / history within the stated bounds is '
            'executed on the real billiard code; distinct_nontrivial counts '
            'distinct observed outcomes (harness-defined observable summary) '
            'over all parts')
        if not c['samples']:
            c['samples'] = [{'note': 'no samples recorded'}]
        c['states'] = max(c['states'], 1)
        c['transitions'] = max(c['transitions'], 1)
        c['known_findings'] = sorted(self.known)
        ev = dict(property_id=self.pid, tier=self.tier, seed=self.seed,
                  level=self.level, coverage=c,
                  assumptions=self.assumptions,
                  wall_s=round(time.time() - self.t0, 2),
                  violations=len(self.violations))
        os.makedirs(os.path.join(ROOT, 'evidence'), exist_ok=True)
        path = os.path.join(ROOT, 'evidence', '%s.json' % self.pid)
        if os.environ.get('VMC_NO_EVIDENCE'):
            # trial runs against a mutated scratch copy (tools/try_mutant.sh)
            # must not overwrite the evidence of the real tree
            path = os.path.join(
                os.environ.get('VMC_REPLAY_DIR') or
                os.path.join(ROOT, 'replays'), 'trial-%s.json' % self.pid)
            os.makedirs(os.path.dirname(path), exist_ok=True)
        tmp = path + '.tmp'
        with open(tmp, 'w') as f:
            json.dump(ev, f, indent=1, sort_keys=True, default=repr)
        os.replace(tmp, path)
        for fid, (f, n) in sorted(self.known.items()):
            print('KNOWN-FINDING: property=%s %s: %s (%d cases)' % (
                self.pid, fid, f['description'], n))
        for msg, rp in self.violations[:10]:
            print('VIOLATION property=%s replay=%s' % (self.pid, rp))
            print('  ' + msg.replace('\n', '\n  ')[:2000])
        print('%s %s: evaluations=%d states=%d transitions=%d outcomes=%d '
              'exhaustive=%s wall=%.1fs violations=%d' % (
                  self.pid, self.tier, c['evaluations'], c['states'],
                  c['transitions'], c['distinct_nontrivial'], c['exhaustive'],
                  ev['wall_s'], len(self.violations)))
        sys.stdout.flush()
        return 1 if self.violations else 0
