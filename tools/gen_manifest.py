#!/usr/bin/env python3
"""Regenerates /verif/MANIFEST.json from the table below."""
import json
import os

ROOT = os.path.dirname(os.path.dirname(os.path.abspath(__file__)))
BASELINE = ("cd /repo && env -u CELERY_BILLIARD_VERIF /venv/bin/python -m pytest -ra -q "
            "-p no:cacheprovider --timeout=900 --continue-on-collection-errors")

# id -> (category, technique, text, note, design_ref)
L2 = ('explicit-state BFS (replay based, canonical-state de-duplication) over event histories of the real Pool parent code (threads=False) on a virtual OS, workers = reference automaton bound to the real Worker code by the L1 enumeration; deterministic settle suffix for liveness')
L2NOTE = ('Trusted: WorkerSpec (checked against the real Worker by harness/l1.py), the virtual OS models, event-level atomicity of parent handlers. Bounds: 1-3 workers, 1-3 jobs, history depth 8-9 quick / 10-11 thorough, all events of the alphabet listed in coverage.parts.*.events.')
L3 = ('stateless DFS, delay-bounded (every schedule departing at most N times from the deterministic scheduler), of the whole real Pool (its four thread bodies, real queues/locks, real Worker code in virtual processes, real signal handlers) on the virtual OS')
L3NOTE = ('Trusted: virtual OS models (semaphore, pipe, process table, signal delivery at bytecode boundaries / blocking calls), CPython. Bounds: 1-2 workers, 0-3 jobs, delay bound 1 quick / 2 thorough; timers fire only when nothing else can run.')
CHECKS = {
 'C01': ('model_checking', L2, 'Every history (submissions, task-handler steps incl. serialisation failures, worker take/finish, deaths, deliveries in any order, supervision rounds, clock advances, discard, terminate_job, close) up to the depth bound is executed on the real parent code; per-event oracle: outcome immutable, callbacks at most once, each outcome justified by this job\'s own ground truth; after a deterministic settle suffix every accepted job is resolved.', L2NOTE, '5/C01'),
 'C02': ('model_checking', L2, 'Real chunking/ordering code under every order in which chunks are taken, acknowledged, completed and delivered by 1-3 workers, every position of the length announcement and of the consumer next() calls: map/starmap equal the sequential list (values and element types), imap in order, imap_unordered as a multiset, empty inputs empty and ready at once; failures carry the original exception (type, args, remote traceback naming the function), a failed map reports one of its own inputs, imap raises at the failing position and continues.', L2NOTE + ' Inputs: lengths 0-3 (thorough 0-5), chunk sizes None/1/2 (thorough also 3, n, n+1), pool sizes 1-3, raising position first/last (thorough: every).', '5/C02'),
 'C03': ('fault_enumeration', 'complete enumeration of task sequences x quotas x handshake answers x end-of-input on the real Worker (as a vthread in a virtual process), with one fault (SIGKILL; thorough also SIGTERM) injected at every scheduling point of the fault-free run; plus all orders of cancel/ACK/READY on the real parent handlers', 'The real Worker.__call__/workloop/_do_exit run against WorkerSpec (ACK first with real pid and time, exactly one READY per accepted job before the next, refused jobs never run nor count, quota, recycle exit only after consumption or 30 s guard, exit callback and DEATH once).', 'Trusted: virtual OS, signal-delivery model. Bounds: sequences of 1-2 tasks (3 thorough) over 6 task behaviours, quotas None/1/2(/3), handshake answers ack/nack, injection at every virtual-OS call (thorough: also every source line of Worker).', '4/L1, 5/C03'),
 'C04': ('model_checking', L2, 'Death alphabet (statuses -9,-15,-11,1,70,255,0,0x9B; in task and between jobs), ticks and clock advances around the lost-worker timeout, apply/map/imap/imap_unordered: WorkerLostError exactly for jobs with an unfinished part on a dead worker, naming the status, not before the timeout and at the first supervision round after it; replacement present; iterator handles release their waiter.', L2NOTE + ' Fairness assumption: a result message is processed less than one lost-worker timeout after it was written.', '5/C04'),
 'C05': ('model_checking', L2, 'Pool-level and per-job hard limits, elapsed time at limit-eps/limit/limit+eps, result arriving before/between/after scan and kill, map/imap sharing the pool: job unresolved at a scan at or after its limit fails with TimeLimitExceeded, TERM then KILL recorded, process gone, pool whole again after settle; nothing else is ever timed out; per-job beats pool default; scan never raises.', L2NOTE, '5/C05'),
 'C06': ('model_checking', L2 + '; worker half: L1 fault enumeration with the soft-limit signal at every in-task point', 'Exactly one SIGUSR1 per job at the first scan past its soft limit while unresolved and before its hard limit, timeout callback(soft=True, limit) once, none for resolved jobs or jobs without soft limit, per-job beats pool; inside the worker the signal raises SoftTimeLimitExceeded where it lands and a task that catches it has its value delivered.', L2NOTE, '5/C06'),
 'C07': ('model_checking', L3, 'close() then join() on the whole pool: join returns, every pre-close job has its sequential value, all worker processes exited and reaped, supervisor/task/result threads finished, no 30 s guard wait, late submissions refused -- for every schedule within the delay bound.', L3NOTE, '5/C07'),
 'C08': ('model_checking', L3 + '; worker half: L1 with SIGTERM injected at every scheduling point', 'terminate() (twice, after close, via the finaliser), terminate_job and hard-limit kills on the whole pool: returns within the virtual horizon, no worker alive, pool threads finished (supervisor within one period), delivered results unchanged; worker side: after TERM at any point no further job is taken, exit callback once, process exits.', L3NOTE, '5/C08'),
 'C09': ('model_checking', L2, 'Exit alphabet (0, 0x9B, 1, -9 idle or in task), grow/shrink, quotas, supervision at every position: after each round live workers = configured size (no pending controlled termination), never above, slot indices distinct, no task executed twice, nothing failed or held up (no guard expiry) by recycling, shrink refused only when nobody is idle.', L2NOTE, '5/C09'),
 'C10': ('model_checking', 'BFS over operation histories of the bare LaxBoundedSemaphore vs a counter model; stateless DFS (preemption bound 2-3) of 2-3 vthreads with LINE-level preemption inside the class; ' + L2, 'value within 0..bound and equal to the counter model for every history to depth 7-9; concurrent calls end in a state some sequential order produces; in the pool with putlocks: value<=bound always, in-flight<=bound while no worker exits, all slots free at quiescence.', L2NOTE + ' Line-level preemption over-approximates CPython thread switches.', '5/C10'),
 'C11': ('model_checking', 'BFS over restart/accept histories with time gaps {0, T/2, T-eps, T, 2T} of the real restart_state against a reference model written from the statement; ' + L2 + '; real Supervisor.body as a vthread for the start-up burst', 'Limiter agrees with the reference on every history to depth 7-9 for budgets 1-3/None/0 and windows 1/10; in the pool the limiter is consulted once per abnormally exited worker, never for 0/0x9B, and a refusal happens instead of the fork; burst limiter (10*size, 1) installed for the first second and the configured one restored.', L2NOTE, '5/C11'),
 'C12': ('fault_enumeration', 'complete enumeration: exception classes x argument tuples x traceback depths around DEFAULT_MAX_FRAMES (and real runaway recursion) x 0-3 pickle round trips with two picklers; real Worker driven over scripted queues for unserialisable results at nesting depth 0-3 and task sequences to length 3', 'Type, args, traceback text naming the raising frame and a formattable bounded traceback object survive every round trip; unserialisable result -> exactly one MaybeEncodingError READY for that job and the worker goes on.', 'Trusted: pickle, traceback module. Finite input table enumerated completely.', '5/C12'),
 'C13': ('model_checking', 'stateless DFS over environment answers (every read/write: full / 1 byte / half / EINTR, deviation bound 2 quick / 3-4 thorough), every peer-close position, complete offset/size/maxlength/buffer tables, 2-vthread sender||receiver with small pipe capacities; every model run replayed against real kernel pipes and socketpairs', 'Real Connection over virtual pipes: received == sent in order with boundaries, EOF at boundary -> EOFError, mid-message EOF -> error, oversize -> OSError and unreadable, BufferTooShort carries the whole message and leaves the buffer untouched, invalid arguments rejected with zero I/O.', 'Trusted: VPipe model (conformance-replayed against os.pipe/socketpair on every stream), struct/pickle.', '5/C13'),
 'C14': ('model_checking', 'explicit-state BFS (parallel, canonical digest) over malloc/free histories of the real Heap with in-memory arenas; stateless DFS of 2-3 vthreads with LINE-level preemption (bound 2-3); re-entrant free injected at every LINE of malloc/free', 'Every live block >= request, aligned, inside a mapped arena, disjoint; live+free tile every arena; no adjacent free blocks; four indexes agree; new arena only when nothing fits; coalescing order independent.', 'Trusted: sys.monitoring LINE delivery; Arena replaced by an in-memory look-alike (real arenas are exercised by C15).', '5/C14'),
 'C15': ('model_checking', 'BFS over create/drop histories on real RawValue/RawArray/Value/Array with real mmap arenas; stateless DFS (preemption bound 2-3, LINE-level points in the accessors) of 2-3 virtual processes incrementing under the lock, with an unlocked negative control; complete typecode x start-method matrix on real processes', 'New objects read their initial value/zeros on recycled dirty storage, byte ranges disjoint, writes isolated; no lost update under get_lock(); accessors take the same lock; visibility parent<->child for fork/spawn/forkserver.', 'Trusted: VSemLock model, mmap. Part (c) is exhaustive over inputs on real processes (no schedule dependence).', '5/C15'),
 'C16': ('model_checking', 'stateless DFS (preemption bound 1-3 / delay bound 1-3) over all semaphore, pipe, condition and thread operations of real Queue/SimpleQueue/JoinableQueue with one queue copy per virtual process (spawn pickling) and the feeder thread as a vthread', 'multiset and per-producer order preserved, capacity never exceeded, Full/Empty only when justified by the virtual clock, join() returns exactly when unfinished == 0, no deadlock.', 'Trusted: VSemLock/VPipe models (conformance replayed), vthreading look-alikes for the feeder thread.', '5/C16'),
 'C17': ('model_checking', 'stateless DFS over all interleavings of semaphore operations (preemption + timer-deviation bounded) of the real synchronize.py over a conformance-checked semaphore model', 'Every interleaving, at the granularity of single semaphore operations and with timeouts firing at any point, of 2-5 waiters/notifiers/setters within the stated preemption bound is executed on the real Condition/Event/Lock/Semaphore code; oracle = lost/spurious wake-up rules, holder counts, reference counter model, post-quiescence probe.', 'Trusted: VSemLock model (replayed against the real _multiprocessing.SemLock for all non-blocking histories to depth 4-5), sem_wait blocking semantics, CPython. Bounds: <=3 waiters, <=2 notifiers, preemptions+timer deviations <=2 (3 thorough for <=3 threads).', '5/C17'),
 'C18': ('model_checking', 'all interleavings (and short-I/O deviations) of the real Listener.accept/Client handshake over a virtual socketpair for 19 key pairs; complete enumeration of 12^3 adversary scripts per honest role; real AF_UNIX conformance', 'Both sides connect iff keys equal, otherwise both raise AuthenticationError; any wrong digest/verdict/EOF is refused; challenges are the next 20 bytes of the random source each session; non-bytes keys rejected before any I/O.', 'Trusted: hmac/md5, VPipe model (79 scripts replayed on kernel sockets). HMAC key normalisation (keys equal after zero padding / hashing) is outside the alphabet.', '5/C18'),
 'C19': ('model_checking', 'explicit-state BFS over operation/exit histories of the real BaseProcess + real Popen.poll/wait/terminate on the virtual process table (closed under depth 5), history enumeration without de-duplication as cross-check, preemption-bounded DFS of parent||child-exit races with LINE-level points, complete exit-status table, and the complete finite matrix of child exit paths x start methods on real processes', 'exitcode None / is_alive until the child ended, then the decoded status for every exit code 0-255 and signal 1-64; timed join bounded by its timeout in virtual time; joined child leaves active_children; second start and foreign start refused; real children: return->0, raise->1, sys.exit(n)->n, signal s->-s (non-zero under forkserver) for fork, spawn, forkserver.', 'Trusted: virtual process table (waitpid status encoding as the kernel\'s), real-process part has no wall-clock assertions. Child-side bootstrap code is decided on real processes (finite input space, no schedule dependence).', '5/C19'),
}

NOT_YET = {}


def main():
    props = [json.loads(l) for l in open(os.path.join(ROOT, 'properties.jsonl'))]
    checks = []
    na = []
    for p in props:
        pid = p['id']
        if pid in CHECKS:
            cat, tech, text, note, ref = CHECKS[pid]
            checks.append(dict(
                property_id=pid,
                quick_cmd='./check %s --tier quick' % pid,
                thorough_cmd='./check %s --tier thorough' % pid,
                evidence_file='evidence/%s.json' % pid,
                replay_cmd_template='./check %s --replay {path}' % pid,
                engine='vmc',
                level_claimed=dict(category=cat, text=text,
                                   design_ref='DESIGN.md section ' + ref),
                level_note=note, technique=tech))
        else:
            na.append(dict(property_id=pid, reason=NOT_YET.get(
                pid, 'check not built yet in this round (planned: DESIGN.md section 5); not claimed until its harness is committed')))
    man = dict(
        version=1,
        setup_cmd='./tools/setup.sh',
        hooks=dict(guard='CELERY_BILLIARD_VERIF',
                   enable='no in-repo hooks: every seam is substituted from /verif at import time (CELERY_BILLIARD_VERIF=1 is exported by ./check for symmetry only)',
                   baseline_off_cmd=BASELINE, source_commits=[], add_only=True),
        engines=[dict(name='vmc', path='vmc/',
                      serves_properties=sorted(CHECKS),
                      kind_free_text='hand-written stateless/explicit-state explorer executing the real billiard code over a virtual OS (vthreads, virtual semaphores/pipes/processes/clock)')],
        checks=checks, not_applicable=na,
        notes='See DESIGN.md. known_findings.json lists genuine defects (known / fixed).')
    with open(os.path.join(ROOT, 'MANIFEST.json'), 'w') as f:
        json.dump(man, f, indent=1)
        f.write('\n')


if __name__ == '__main__':
    main()
