#!/bin/bash
# tools/try_benign.sh <patch.diff> <ID> [<ID>...]
# A behaviour-preserving change: every named check (quick tier) must stay
# silent (rc 0) on a scratch copy of /repo with the patch applied.
patch=$(readlink -f "$1"); shift
tmp=$(mktemp -d /var/tmp/vmc-ben-XXXXXX)
cp -r /repo "$tmp/repo"
if ! git -C "$tmp/repo" apply "$patch"; then
    echo "PATCH-DOES-NOT-APPLY $patch"; rm -rf "$tmp"; exit 3
fi
cd /verif
bad=0
for id in "$@"; do
    out=$(VMC_REPO="$tmp/repo" VMC_NO_EVIDENCE=1 VMC_REPLAY_DIR="$tmp/replays" timeout 1500 ./check "$id" --tier quick 2>&1)
    rc=$?
    if [ $rc -ne 0 ]; then
        bad=1
        echo "ALARM $id rc=$rc :: $(echo "$out" | grep -A1 '^VIOLATION\|HARNESS-ERROR\|Error' | grep -v 'UserWarn' | head -3 | tr '\n' ' ' | cut -c1-400)"
    else
        echo "quiet $id"
    fi
done
rm -rf "$tmp"
exit $bad
