"""C01 -- every submitted job resolves exactly once, with its own outcome.
L2 event-level BFS (DESIGN.md sections 4 and 5/C01)."""
import random

from vmc import par, report


def final(env):
    """After the settle suffix: every job the pool accepted and the user did
    not discard is resolved, and the cache holds no resolved job."""
    un = env.unresolved()
    if un:
        j = un[0]
        rec = env.jobs[j]
        sig = None
        lost = [p for p in rec['parts'].values() if p.get('state') == 'lost']
        h = rec['h']
        live = [p.pid for p in env.pool._pool]
        if rec['kind'] == 'imap' and lost:
            sig = 'F5:imap-ordered-loss-unreported'
        elif rec['kind'] == 'imap_unordered' and lost and len(
                [n for n in rec['nexts'] if n[0] == 'err'] +
                [x for x in getattr(h, '_items', ())
                 if isinstance(x, tuple) and x and x[0] is False]) > len(lost):
            # more failure items than lost parts: the same loss was reported
            # again at later supervision rounds, the index ran past the length
            sig = 'F37:imap-unordered-loss-reported-every-round'
        elif rec['kind'] == 'apply' and lost and h._accepted and \
                h._worker_pid not in live and h._worker_lost is None:
            # accepted by a process that had already been reaped: nobody
            # ever matches the job to its dead owner
            sig = 'F8:ack-after-reap'
        elif env.cfg.get('pool', {}).get('synack') and \
                rec['kind'] != 'apply' and any(
                    w.alive and w.phase == 'syn' and w.task[0] == j
                    for w in env.workers.values()):
            # handshake enabled: the accept message of a map/imap part is
            # never answered, its worker waits for the answer for ever
            sig = 'F35:map-part-accept-never-answered-under-handshake'
        elif env.closed and not lost and not any(
                p.get('state') in ('taken', 'done', 'putfail')
                for p in rec['parts'].values()) and \
                len([p for p in env.pool._pool
                     if env.workers[p.pid].alive]) < env.pool._processes:
            # close() stops supervision: a worker that died afterwards was
            # not replaced and this job, still waiting in the task queue, is
            # never taken by anybody (F18, the same root cause as in C07)
            sig = 'F18:no-replacement-after-close'
        return ('job %d (%s) never resolves (parts %r, cache %r, log tail %r)'
                % (j, rec['kind'], rec['parts'], sorted(env.pool._cache),
                   env.log[-6:]), sig)
    for j, rec in enumerate(env.jobs):
        h = rec['h']
        if h is None or rec['discarded']:
            continue
        if h._job in env.pool._cache and rec['kind'] == 'apply' \
                and h._accepted and h.ready():
            return 'resolved and accepted job %d is still cached' % j
    return None


A = dict(die=(-9,), die_idle=False, discard=True, terminate_job=True,
         close=True, put_faults=('exc',), max_adv=2)


def configs(tier):
    T = tier == 'thorough'
    out = []
    ap_ok = dict(kind='apply', fn='ok')
    ap_boom = dict(kind='apply', fn='boom')
    ap_tq = dict(kind='apply', fn='ok', tq=True)
    ap_uns = dict(kind='apply', fn='ok', tq=True, unsendable=True)
    ap_hard = dict(kind='apply', fn='ok', hard=2.0)
    mp = dict(kind='map', fn='tenfold', items=[1, 2], chunksize=1)
    mp_r = dict(kind='map', fn='raise_if', partial=2, items=[1, 2],
                chunksize=1)
    im = dict(kind='imap', fn='tenfold', items=[1, 2])
    imu = dict(kind='imap_unordered', fn='tenfold', items=[1, 2])
    pool = dict(lost_worker_timeout=3.0)
    d = 9 if not T else 11
    for jobs in ([ap_ok, ap_boom], [ap_tq, ap_uns], [ap_uns, ap_ok, ap_ok],
                 [ap_ok, ap_tq]):
        out.append(dict(name='apply:' + '+'.join(
            j['fn'] + ('/tq' if j.get('tq') else '') +
            ('/uns' if j.get('unsendable') else '') for j in jobs),
            procs=2, jobs=jobs, pool=pool, alphabet=A, depth=d,
            max_states=40000 if not T else 400000))
    out.append(dict(name='apply-hard', procs=2, jobs=[ap_hard, ap_ok],
                    pool=dict(pool, timeout=None, enable_timeouts=True),
                    alphabet=dict(A, discard=False, put_faults=()),
                    depth=d, max_states=40000 if not T else 400000))
    for jobs in ([mp], [mp_r], [im], [imu], [mp, ap_ok], [im, ap_ok]):
        out.append(dict(name='multi:' + '+'.join(j['kind'] + ':' + j['fn']
                                                 for j in jobs),
                        procs=2, jobs=jobs, pool=pool,
                        alphabet=dict(A, discard=False, terminate_job=False,
                                      put_faults=('exc',), next=True),
                        depth=d, max_states=40000 if not T else 400000))
    # parts of several items: per-item owner bookkeeping of a finished part,
    # with workers leaving between parts (recycling) or dying in one
    mp4 = dict(kind='map', fn='tenfold', items=[1, 2, 3, 4], chunksize=2)
    for nm, pk in (('map-chunks2', pool),
                   ('map-chunks2/recycle', dict(pool, maxtasksperchild=1))):
        out.append(dict(name='multi:' + nm, procs=2, jobs=[mp4], pool=pk,
                        alphabet=dict(A, discard=False, terminate_job=False,
                                      put_faults=(), die=(-9,),
                                      die_idle=False),
                        depth=d, max_states=40000 if not T else 400000))
    # a result callback that raises an exception the caller asked to have
    # propagated; then the worker leaves (clean exit 0, or killed) between
    # jobs -- and a worker that exits with status 0 in the middle of a job
    out.append(dict(name='apply:raising-callback', procs=1,
                    jobs=[dict(ap_ok, cb_raises=True), ap_ok], pool=pool,
                    alphabet=dict(A, die=(-9, 0), die_idle=True,
                                  discard=False, terminate_job=False,
                                  close=False, put_faults=(), max_adv=3),
                    depth=d, max_states=40000 if not T else 400000))
    out.append(dict(name='apply:exit-status-0', procs=1, jobs=[ap_ok, ap_ok],
                    pool=pool,
                    alphabet=dict(A, die=(0,), discard=False,
                                  terminate_job=False, close=False,
                                  put_faults=(), max_adv=3),
                    depth=d, max_states=40000 if not T else 400000))
    # terminate_job(pid) aimed at a worker that runs a part of a map / imap
    # job (the call takes a pid; nothing ties it to apply_async)
    for jobs in ([mp], [imu], [im]):
        out.append(dict(name='multi/terminate-worker:' + jobs[0]['kind'],
                        procs=2, jobs=jobs, pool=pool,
                        alphabet=dict(A, discard=False, terminate_job=False,
                                      terminate_worker=True, close=False,
                                      put_faults=(), next=True),
                        depth=min(d, 9),
                        max_states=40000 if not T else 400000))
    imr0 = dict(kind='imap', fn='tenfold', items=[1, 2], iter_raise_at=0)
    imr1 = dict(kind='imap_unordered', fn='tenfold', items=[1, 2],
                iter_raise_at=1)
    for jobs in ([ap_ok, imr0], [mp, imr1], [mp, imr0]):
        out.append(dict(name='iterable-raises:' + '+'.join(
            j['kind'] + ('@%d' % j['iter_raise_at']
                         if 'iter_raise_at' in j else '') for j in jobs),
            procs=2, jobs=jobs, pool=pool,
            alphabet=dict(A, discard=False, terminate_job=False,
                          put_faults=(), next=True, die=()),
            depth=d, max_states=40000 if not T else 400000))
    if T:
        out.append(dict(name='apply3w', procs=3, jobs=[ap_ok, ap_boom, ap_tq],
                        pool=pool, alphabet=A, depth=10, max_states=600000))
    for c in out:
        c['final'] = 'harness.c01:final'
    return out


def main(tier, seed, only=None):
    from harness import l2run

    def extra(rep):
        from harness import c01_threads
        c01_threads.part(rep, tier)
    return l2run.run('C01', tier, seed, configs(tier), [
        'workers die only while running task code or between jobs (the '
        'property\'s own carve-out)',
        'an IOError from the task pipe is reachable only once the pipe was '
        'closed (terminate()): injected put failures are serialisation '
        'failures'], only, extra)


def replay(rp):
    if rp.get('harness') == 'c01-threads':
        from harness import c01_threads
        return c01_threads.replay(rp)
    from harness import l2run
    return l2run.replay('C01', rp, configs('thorough') + configs('quick'))
