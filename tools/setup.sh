#!/bin/bash
# Offline setup: nothing to build (pure Python against /repo's working tree);
# verifies the interpreter and runs the environment-model conformance once.
set -e
cd "$(dirname "$0")/.."
export PYTHONHASHSEED=0 PYTHONDONTWRITEBYTECODE=1 PYTHONPATH=/verif:/repo
/venv/bin/python - <<'PY'
import sys
assert sys.version_info >= (3, 12) and hasattr(sys, 'monitoring'), sys.version
from vmc import vctx
from harness import envconf
n = envconf.semlock_conformance(3)
print('setup ok: SemLock conformance sequences replayed:', n)
PY
