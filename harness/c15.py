"""C15 -- shared ctypes values are isolated, initialised, visible and atomic.

DESIGN.md section 5/C15.  Three parts, all on the real billiard code:

(a) every create/drop history up to a depth on the real ``RawValue /
    RawArray / Value / Array`` over the real ``heap.Heap`` and real mmap
    arenas (a fresh ``Heap()`` per history); dropped objects are filled with
    0xFF first so that recycled storage is dirty.  Oracle: a new object reads
    exactly its initial value (all bytes zero when none was given); byte
    ranges of live objects are pairwise disjoint; no operation on one object
    (creation, API write, byte fill, drop) changes the bytes of another.
(b) every interleaving (preemption bounded, scheduling points at every
    semaphore operation and at every source line of the increment functions
    and of the ``Synchronized*`` accessors) of 2-3 virtual processes that
    update one ``Value`` / ``Array`` / structure under ``get_lock()``; each
    process owns the copy billiard's spawn pickling gives it.  Oracle: no
    lost update; a reader through the accessor never sees the middle of a
    locked two-step update; every copy sees the final value.  A negative
    control (bare ``v.value += 1``) must show a lost update.
(c) the complete finite matrix type x start method on REAL processes
    (child reads what the parent wrote before and after start, parent reads
    what the child wrote), sequenced by pipes and join; run in a separate
    plain interpreter (``C15_REAL=1``: no virtual OS is installed there).
"""
import collections
import ctypes
import gc
import json
import os
import sys
import weakref

REAL = os.environ.get('C15_REAL') == '1'
if not REAL:
    from vmc import vctx, vos, sched as vs, explore, par, report, linepoints

import billiard                                       # noqa: E402
from billiard import sharedctypes as sc               # noqa: E402
from billiard import heap as bheap                    # noqa: E402

if not REAL:
    CTX = vctx.VContext()


# ------------------------------------------------------------------- types
class Tri(ctypes.Structure):
    _fields_ = [('a', ctypes.c_byte), ('b', ctypes.c_int),
                ('c', ctypes.c_double)]


TYPECODES = tuple(sc.typecode_to_type)
TYPES = TYPECODES + ('q', 'T')          # 'q' = c_longlong, 'T' = Tri
# what each type code means (array-module convention), independent of the
# table in the repository: used only to pick in-range sample values
REF = {'c': ctypes.c_char, 'u': ctypes.c_wchar, 'b': ctypes.c_byte,
       'B': ctypes.c_ubyte, 'h': ctypes.c_short, 'H': ctypes.c_ushort,
       'i': ctypes.c_int, 'I': ctypes.c_uint, 'l': ctypes.c_long,
       'L': ctypes.c_ulong, 'f': ctypes.c_float, 'd': ctypes.c_double,
       'q': ctypes.c_longlong, 'T': Tri}
SHAPES = ('S', 'SI', 'A0', 'A1', 'A3', 'A600', 'AI')
ARRLEN = {'A0': 0, 'A1': 1, 'A3': 3, 'A600': 600, 'AI': 5}


def api_type(name):
    """What the caller passes to Value()/Array(): the type code itself for
    the type codes, a ctypes type otherwise."""
    if name == 'q':
        return ctypes.c_longlong
    if name == 'T':
        return Tri
    return name


def sample(name, k):
    """k-th non-zero sample value of the type (deterministic)."""
    if name == 'c':
        return bytes([0x41 + k % 26])
    if name == 'u':
        return chr(0x416 + k % 32)
    if name == 'T':
        return (sample('b', k), sample('i', k), sample('d', k))
    if name == 'f':
        return 1.5 + (k % 64)
    if name == 'd':
        return -2.25 - k
    bits = 8 * ctypes.sizeof(REF[name])
    if name in 'BHIL':
        return (1 << bits) - 1 - (k % 100)
    if k % 2 == 0:
        return -(1 << (bits - 1)) + (k % 100)
    return (1 << (bits - 1)) - 1 - (k % 100)


def zero(name):
    if name == 'c':
        return b'\x00'
    if name == 'u':
        return '\x00'
    if name == 'T':
        return (0, 0, 0.0)
    if name in 'fd':
        return 0.0
    return 0


def is_array(shape):
    return shape not in ('S', 'SI')


def expected(name, shape):
    if shape == 'S':
        return zero(name)
    if shape == 'SI':
        if name == 'T':
            # a structure given fewer initialisers than it has fields: the
            # rest must read as zero even on recycled (dirty) storage
            return (sample('b', 0), 0, 0.0)
        return sample(name, 0)
    if shape == 'AI':
        return [sample(name, i + 1) for i in range(ARRLEN['AI'])]
    return [zero(name)] * ARRLEN[shape]


def make(ctx, name, shape, wrap):
    """Create through the public API of the context."""
    t = api_type(name)
    if not is_array(shape):
        args = ()
        if shape == 'SI':
            args = sample(name, 0)
            if name != 'T':
                args = (args,)
            else:
                args = args[:1]          # partial initialiser
        if wrap:
            return ctx.Value(t, *args)
        return ctx.RawValue(t, *args)
    arg = expected(name, shape) if shape == 'AI' else ARRLEN[shape]
    if wrap:
        return ctx.Array(t, arg)
    return ctx.RawArray(t, arg)


def read(obj, name, arr):
    """The value as the user reads it (through the accessors if wrapped)."""
    if not arr:
        if name == 'T':
            return (obj.a, obj.b, obj.c)
        return obj.value
    got = obj[:]
    if name == 'T':
        return [(e.a, e.b, e.c) for e in got]
    if name == 'c':
        return [got[i:i + 1] for i in range(len(got))]
    return list(got)


def write_one(obj, name, i, val):
    if i is None:
        if name == 'T':
            obj.a, obj.b, obj.c = val
        else:
            obj.value = val
    elif name == 'T':
        obj[i] = Tri(*val)
    else:
        obj[i] = val


def write_all(obj, name, arr, n, k):
    """Write the k-th pattern through the API; returns what must be read."""
    if not arr:
        val = sample(name, k)
        write_one(obj, name, None, val)
        return val
    vals = [sample(name, k + i) for i in range(n)]
    for i, val in enumerate(vals):
        write_one(obj, name, i, val)
    return vals


def raw_of(obj):
    return obj.get_obj() if isinstance(obj, sc.SynchronizedBase) else obj


# ======================================================================
# (a) create / drop histories
# ======================================================================
class _Bad(Exception):
    """Oracle verdict inside a history."""


def _bytes_of(addr, size):
    return ctypes.string_at(addr, size) if size else b''


def _check_live(live, what, skip=None):
    for e in live:
        if e is skip:
            continue
        if _bytes_of(e[2], e[3]) != e[4]:
            raise _Bad('%s changed the bytes of live object %s' % (
                what, e[5]))


def _a_new(ctx, op, step, live, dirty, acc):
    _, name, shape, wrap = op
    desc = '#%d %s%s(%s,%s)' % (step, '' if wrap else 'Raw',
                                'Array' if is_array(shape) else 'Value',
                                name, shape)
    try:
        obj = make(ctx, name, shape, wrap)
    except vos.HarnessError:
        raise
    except Exception as exc:                        # noqa
        raise _Bad('creating %s raised %s: %s' % (
            desc, type(exc).__name__, exc))
    try:
        _a_check_new(obj, op, step, live, dirty, acc, desc)
    except (_Bad, vos.HarnessError):
        raise
    except Exception as exc:                        # noqa
        raise _Bad('reading / writing the new object %s raised %s: %s' % (
            desc, type(exc).__name__, exc))


def _a_check_new(obj, op, step, live, dirty, acc, desc):
    _, name, shape, wrap = op
    raw = raw_of(obj)
    arr = is_array(shape)
    addr, size = ctypes.addressof(raw), ctypes.sizeof(raw)
    n = ARRLEN[shape] if arr else 1
    if size != ctypes.sizeof(REF[name]) * n:
        raise _Bad('%s has %d bytes of storage, its type needs %d' % (
            desc, size, ctypes.sizeof(REF[name]) * n))
    # initialised
    exp = expected(name, shape)
    got = read(obj, name, arr)
    if got != exp or (arr and len(obj) != n):
        raise _Bad('%s does not read as its initial value: got %r, '
                   'expected %r' % (desc, _short(got), _short(exp)))
    if shape != 'SI' and shape != 'AI':
        b = _bytes_of(addr, size)
        if b.count(0) != size:
            raise _Bad('%s created without initial value is not zero-filled'
                       ': %r' % (desc, b[:32]))
    # isolated: disjoint storage
    for e in live:
        if size and e[3] and addr < e[2] + e[3] and e[2] < addr + size:
            raise _Bad('%s overlaps live object %s ([+%d,%d) vs [+%d,%d))'
                       % (desc, e[5], 0, size, e[2] - addr,
                          e[2] - addr + e[3]))
    _check_live(live, 'creating ' + desc)
    if size and any(addr < a + s and a < addr + size for a, s in dirty):
        acc['reuse'] += 1
    # isolated: writes through the API, then every byte
    if arr:
        for i in sorted(set((0, n - 1))) if n else ():
            write_one(obj, name, i, sample(name, step + 7 + i))
    else:
        write_one(obj, name, None, sample(name, step + 7))
    _check_live(live, 'writing %s through its accessors' % desc)
    ctypes.memset(addr, 0x10 + step, size)
    _check_live(live, 'filling the bytes of ' + desc)
    live.append([obj, raw, addr, size, bytes([0x10 + step]) * size, desc])


def _a_drop(k, live, dirty):
    e = live.pop(k)
    ctypes.memset(e[2], 0xFF, e[3])
    dirty.append((e[2], e[3]))
    wr = weakref.ref(e[1]._wrapper)
    desc = e[5]
    del e[:]
    if wr() is not None:
        gc.collect()
        if wr() is not None:
            raise vos.HarnessError('dropped object %s is still referenced'
                                   % desc)
    _check_live(live, 'dropping ' + desc)


def _layout(h, live):
    try:
        ar = {id(a): i for i, a in enumerate(h._arenas)}
        return tuple(sorted((ar[id(e[1]._wrapper._state[0][0])],) +
                            tuple(e[1]._wrapper._state[0][1:])
                            for e in live))
    except Exception:                               # noqa
        return None


def _short(x):
    if isinstance(x, list) and len(x) > 8:
        return x[:8] + ['... %d items' % len(x)]
    return x


def run_history(hist, layouts=None):
    """Execute one history on fresh real objects.  Returns
    (violation | None, failing step, outcome)."""
    acc = {'reuse': 0}
    live, dirty = [], []
    msg = step = None
    with vos.fresh(None):
        saved = bheap.BufferWrapper._heap
        bheap.BufferWrapper._heap = h = bheap.Heap()
        try:
            for step, op in enumerate(hist):
                if op[0] == 'new':
                    _a_new(CTX, op, step, live, dirty, acc)
                else:
                    _a_drop(op[1], live, dirty)
                if layouts is not None:
                    layouts.add(_layout(h, live))
        except _Bad as exc:
            msg = str(exc)
        finally:
            narenas = len(getattr(h, '_arenas', ()))
            for e in live:
                del e[:]
            del live[:]
            bheap.BufferWrapper._heap = saved
            del h
    return msg, step, ('recycled-creates', acc['reuse'], 'arenas', narenas)


def creates_at(p, tw, shapes):
    """The create operations allowed at history position p: every shape,
    ``tw`` (type, wrapper) pairs per shape, rotating through all types with
    the position so that deep histories stay enumerable."""
    out = []
    for s in shapes:
        si = SHAPES.index(s)
        for j in range(tw):
            t = TYPES[(5 * p + 3 * si + 7 * j) % len(TYPES)]
            out.append(('new', t, s, (p + si + j) % 2))
    return out


def completions(prefix, depth, tw, shapes):
    """All histories of exactly ``depth`` operations extending prefix
    (shorter histories are their prefixes and are checked on the way)."""
    h = list(prefix)
    live0 = 0
    for op in h:
        live0 += 1 if op[0] == 'new' else -1

    def rec(live):
        p = len(h)
        if p == depth:
            yield tuple(h)
            return
        for c in creates_at(p, tw, shapes):
            h.append(c)
            yield from rec(live + 1)
            h.pop()
        for k in range(live):
            h.append(('drop', k))
            yield from rec(live - 1)
            h.pop()
    return rec(live0)


def full_alphabet():
    return [('new', t, s, w) for t in TYPES for s in SHAPES for w in (0, 1)]


def _a_item(item):
    """pmap worker: one work item of part (a)."""
    kind = item[0]
    if kind == 'pairs':
        x = tuple(item[1])
        hs = []
        for y in pair_seconds(x, item[2]):
            hs.append((x, y))
            hs.append((x, ('drop', 0), y))
        part = 'a-pairs'
    else:
        _, depth, tw, shapes, prefix = item
        hs = completions([tuple(o) for o in prefix], depth, tw, shapes)
        part = 'a-deep%d' % depth
    outs = collections.Counter()
    layouts = set()
    n = ops = 0
    viol = []
    sample_h = None
    for hist in hs:
        msg, step, out = run_history(hist, layouts)
        n += 1
        ops += len(hist)
        outs[out] += 1
        if sample_h is None or (out[1] > sample_h[1][1]):
            sample_h = (hist, out)
        if msg:
            viol.append((list(hist[:step + 1]), msg))
            break
    _drop_tempdir()
    return dict(part=part, n=n, ops=ops, outcomes=dict(outs),
                layouts=list(layouts), violations=viol,
                sample=sample_h)


def pair_firsts():
    """First objects of the depth-2 histories: every type x shape; the
    wrapper (raw / lock-wrapped) alternates -- it adds a lock, the storage
    path is the same.  The second object ranges over the full alphabet."""
    return [('new', t, s, (ti + si) % 2)
            for ti, t in enumerate(TYPES) for si, s in enumerate(SHAPES)]


def pair_seconds(x, full):
    """Second objects: every type x shape; both wrappers (thorough), or the
    wrapper alternating with type, shape and first object (quick), so every
    (type, shape, wrapper) still occurs as second object."""
    if full:
        return full_alphabet()
    xi = TYPES.index(x[1]) + SHAPES.index(x[2])
    return [('new', t, s, (ti + si + xi) % 2)
            for ti, t in enumerate(TYPES) for si, s in enumerate(SHAPES)]


def a_items(tier):
    items = [('pairs', x, tier == 'thorough') for x in pair_firsts()]
    if tier == 'thorough':
        deep = [(4, 2, SHAPES), (5, 1, SHAPES),
                (6, 1, ('S', 'SI', 'A0', 'A3', 'A600', 'AI')),
                (7, 1, ('SI', 'A0', 'A3', 'A600'))]
    else:
        deep = [(4, 1, SHAPES), (5, 1, ('SI', 'A0', 'A3', 'A600', 'AI'))]
    for depth, tw, shapes in deep:
        for pre in completions([], 2, tw, shapes):
            items.append(('deep', depth, tw, shapes, pre))
    return items, deep


def _drop_tempdir():
    """multiprocessing.util.get_temp_dir() removes its directory from an
    exit handler that ./check (os._exit) and pmap workers never run."""
    import multiprocessing.util as mpu
    for key, fin in list(mpu._finalizer_registry.items()):
        if getattr(fin._callback, '__name__', '') == '_remove_temp_dir':
            fin()


# ======================================================================
# (b) atomicity under the object's lock
# ======================================================================
_TEMPLATE = '''
def inc_with(v):
    with v.get_lock():
        {A} += 1

def inc_prop(v):
    lock = v.get_lock()
    lock.acquire()
    try:
        {A} = {A} + 1
    finally:
        lock.release()

def inc_ctx(v):
    with v:
        {A} += 1

def inc_bare(v):
    {A} += 1

def two_step(v):
    with v.get_lock():
        {A} = 1
        {A} = 2

def load(v):
    return {A}

def store(v):
    {A} = 10
'''
ACCESS = {'value': 'v.value', 'array': 'v[1]', 'struct': 'v.b'}
FUN = {}
for _k, _a in ACCESS.items():
    _ns = {}
    exec(compile(_TEMPLATE.format(A=_a), '<c15 %s>' % _k, 'exec'), _ns)
    FUN[_k] = _ns
del _k, _a, _ns


def mk_sync(kind, lock=None):
    # explicit initial values: executions of part (b) share one heap, so
    # they must not depend on what a recycled block contains
    kw = {} if lock is None else {'lock': lock}
    if kind == 'value':
        return CTX.Value('i', 0, **kw)
    if kind == 'array':
        return CTX.Array('i', [0, 0, 0], **kw)
    if kind == 'string':
        return CTX.Array('c', [b'a', b'b', b'c', b'd'], **kw)
    return CTX.Value(Tri, 0, 0, 0.0, **kw)


def raw_get(kind, c):
    o = c.get_obj()
    if kind == 'value':
        return o.value
    if kind == 'array':
        return o[1]
    if kind == 'string':
        return o[1]
    return o.b


def raw_set(kind, c, x):
    o = c.get_obj()
    if kind == 'value':
        o.value = x
    elif kind == 'array':
        o[1] = x
    elif kind == 'string':
        o[1] = bytes([x])
    else:
        o.b = x


_dup_fds = []
_lines_on = False


def _setup_b():
    """Line-level points in the increment functions, the Synchronized*
    classes and the generated property accessors; remember the fds that
    cloning an arena duplicates (nobody else closes them)."""
    global _lines_on
    if _lines_on:
        return
    _lines_on = True
    orig = vctx.VDupFd.detach

    def detach(self):
        fd = orig(self)
        _dup_fds.append(fd)
        return fd
    vctx.VDupFd.detach = detach
    bheap.BufferWrapper._heap = bheap.Heap()
    with vos.fresh(None):
        classes = set()
        for kind in ('value', 'array', 'string', 'struct'):
            classes.add(type(mk_sync(kind)))
    for cls in list(classes):
        classes.update(c for c in cls.__mro__ if c is not object)
    codes = linepoints.codes_of(*classes)
    codes |= linepoints.codes_of(*sc.prop_cache.values())
    for ns in FUN.values():
        codes |= linepoints.codes_of(*[f for f in ns.values()
                                       if callable(f)])
    # the accessors exec'd from sharedctypes.template must be among them
    acc = type(mk_sync_probe()).value
    assert acc.fget.__code__ in codes and acc.fset.__code__ in codes
    linepoints.enable(codes)
    _drop_fds()


def mk_sync_probe():
    with vos.fresh(None):
        return mk_sync('value')


def _drop_fds():
    while _dup_fds:
        fd = _dup_fds.pop()
        try:
            os.close(fd)
        except OSError:
            pass


PID0 = 6000


def run_atomic(cfg, prefix, trace=None):
    _setup_b()
    kind, scen = cfg['kind'], cfg['scenario']
    n, rounds = cfg['procs'], cfg.get('rounds', 1)
    F = FUN[kind]
    choices = vs.Choices(prefix)
    sched = vs.Scheduler(choices, horizon=1060.0, timer_deviation=False,
                         max_steps=20000)
    sched.linepoints = bool(cfg.get('lines', True))
    if trace is not None:
        point = sched.point

        def logged(op, obj=None, enabled=None, deadline=None):
            vt = vs.current()
            trace.append((vt.name, op, repr(obj)))
            return point(op, obj, enabled, deadline)
        sched.point = logged
    results = {}
    try:
        with vos.fresh(sched):
            # the interpreter's heap (fresh at _setup_b) is kept across
            # executions: every execution creates its object anew and
            # frees it at the end, the arena is mapped once
            v = mk_sync(kind)
            raw_set(kind, v, 0)         # the counter starts at 0, whatever
            #                             the (recycled) block contained
            copies = [v] + [vctx.clone(v, pid=PID0 + i)
                            for i in range(1, n)]

            def incs(fn, c):
                def run():
                    for _ in range(rounds):
                        fn(c)
                    return 'ok'
                return run
            expect = None
            if scen in ('with', 'prop', 'ctx', 'bare'):
                fn = F['inc_' + scen]
                bodies = [incs(fn, c) for c in copies]
                total = n * rounds
                expect = None if scen == 'bare' else (total,)
            elif scen == 'reader':
                # P0 updates in two steps under the lock, the others read
                bodies = [lambda c=copies[0]: F['two_step'](c)]
                for i, c in enumerate(copies[1:], 1):
                    bodies.append(
                        lambda c=c, i=i: results.__setitem__(i, F['load'](c)))
                expect = (2,)
            else:                                   # 'mixed'
                # all but the last increment under the lock, the last one
                # stores 10 through the plain accessor
                bodies = [incs(F['inc_with'], c) for c in copies[:-1]]
                bodies.append(lambda c=copies[-1]: F['store'](c))
                m = (n - 1) * rounds
                # linearisable results: 10 stored after j increments and
                # followed by the others
                expect = tuple(10 + j for j in range(m + 1))
            for i, b in enumerate(bodies):
                sched.spawn(b, 'P%d' % i, pid=PID0 + i)
            sched.run()
            status = sched.status
            errs = [(t.name, type(t.exc).__name__, str(t.exc)[:100])
                    for t in sched.threads if t.exc is not None]
            finals = [raw_get(kind, c) for c in copies]
            final = finals[0]
            reads = tuple(results.get(i) for i in range(1, n)) \
                if scen == 'reader' else ()
            msg = None
            if errs:
                msg = 'exception in a process: %r' % (errs,)
            elif status != 'done':
                msg = 'processes did not finish (%s): %r' % (
                    status, sched.describe())
            elif len(set(finals)) != 1:
                msg = ('copies of one shared object disagree on its final '
                       'value: %r' % (finals,))
            elif expect is not None and final not in expect:
                if scen == 'mixed':
                    msg = ('%d locked increments and one accessor store of '
                           '10 ended with %r: an update was lost although '
                           'the incrementers held get_lock()' % (m, final))
                elif scen == 'reader':
                    msg = 'two-step update ended with %r' % (final,)
                else:
                    msg = ('lost update: %d increments under the lock, '
                           'final value %r' % (total, final))
            elif scen == 'reader' and any(r not in (0, 2) for r in reads):
                msg = ('a reader saw %r: its accessor completed while '
                       'another process held get_lock() (middle of a locked '
                       'two-step update)' % (reads,))
            del v, copies, bodies
    finally:
        # Scheduler <-> VThread reference cycles would keep the shared
        # objects (arena fds, mmaps) alive until a full gc: break them
        for t in sched.threads:
            t.fn = t.pending = t.result = None
        del sched.threads[:]
        results.clear()
        _drop_fds()
    return explore.Execution(choices.decisions, outcome=(scen, final, reads),
                             violation=msg, status=status)


def make_runner(cfg):
    return lambda prefix, expect=None: run_atomic(cfg, prefix)


def _b_cfg(arg):
    cfg, bound, prefix = arg
    st = explore.dfs(make_runner(cfg), bound, prefix=prefix or ())
    _drop_tempdir()
    return st.as_dict()


def _item(item):
    """pmap worker for every kind of work item."""
    if item[0] == 'b':
        return _b_cfg(item[1:])
    return _a_item(item)


def b_configs(tier):
    """(config, preemption bound).  Quick: bound 2, except bound 1 for the
    3-process configurations of the array / structure wrappers and of the
    'prop' / 'ctx' spellings and the reader / mixed scenarios; thorough:
    bound 3, except bound 2 for 3 processes x 2 rounds, for the 3-process
    'prop' / 'ctx' spellings and for the 3-process negative control."""
    thorough = tier == 'thorough'
    out = []
    for kind in ('value', 'array', 'struct'):
        b2 = 3 if thorough else 2
        for scen in ('with', 'prop', 'ctx'):
            if thorough:
                b3 = 3 if scen == 'with' else 2
            else:
                b3 = 2 if kind == 'value' and scen == 'with' else 1
            out.append((dict(kind=kind, scenario=scen, procs=2, rounds=2), b2))
            out.append((dict(kind=kind, scenario=scen, procs=3, rounds=1), b3))
            if thorough and scen == 'with':
                out.append((dict(kind=kind, scenario=scen, procs=3,
                                 rounds=2), 2))
        b3 = 2 if thorough or kind == 'value' else 1
        out.append((dict(kind=kind, scenario='bare', procs=2, rounds=1), b2))
        out.append((dict(kind=kind, scenario='bare', procs=3, rounds=1), b3))
        b3 = 3 if thorough else 1
        out.append((dict(kind=kind, scenario='reader', procs=2), b2))
        out.append((dict(kind=kind, scenario='reader', procs=3), b3))
        out.append((dict(kind=kind, scenario='mixed', procs=2, rounds=1), b2))
        out.append((dict(kind=kind, scenario='mixed', procs=3, rounds=1), b3))
        if thorough:
            out.append((dict(kind=kind, scenario='mixed', procs=2,
                             rounds=2), b2))
    return out


# ---- copies made by spawn pickling keep storage and lock (finite table) ----
def clone_table():
    """Sequential, complete: every wrapper kind x {default RLock, user
    RLock, user Lock} x {copy, copy of the copy}."""
    _setup_b()
    rows = []
    viol = []
    for kind in ('value', 'array', 'string', 'struct'):
        for lockkind in ('default', 'RLock', 'Lock'):
            for gen in (1, 2):
                msg = _clone_case(kind, lockkind, gen)
                rows.append(((kind, lockkind, gen), msg is None))
                if msg:
                    viol.append((dict(kind=kind, lock=lockkind, gen=gen),
                                 msg))
    _drop_fds()
    return rows, viol


def _clone_case(kind, lockkind, gen):
    A, B = 7000, 7001
    with vos.fresh(None):
        saved = bheap.BufferWrapper._heap
        bheap.BufferWrapper._heap = bheap.Heap()
        try:
            lock = {'default': None, 'RLock': CTX.RLock,
                    'Lock': CTX.Lock}[lockkind]
            lock = lock and lock()
            with vos.as_process(A):
                v = mk_sync(kind, lock)
            if lock is not None and v.get_lock() is not lock:
                return 'get_lock() is not the lock given at creation'
            c = vctx.clone(v, pid=B)
            if gen == 2:
                c = vctx.clone(c, pid=B)
            F = FUN['array' if kind == 'string' else kind]
            x1, x2 = (65, 66) if kind == 'string' else (41, 42)
            conv = (lambda x: bytes([x])) if kind == 'string' else int
            # storage identity, both directions, raw and through accessors
            raw_set(kind, v, x1)
            with vos.as_process(B):
                got = F['load'](c)
            if got != conv(x1):
                return ('copy does not see a write of the original: %r'
                        % (got,))
            raw_set(kind, c, x2)
            with vos.as_process(A):
                got = F['load'](v)
            if got != conv(x2):
                return ('original does not see a write of the copy: %r'
                        % (got,))
            # lock identity: while A holds get_lock(), B's accessor blocks
            with vos.as_process(A):
                v.get_lock().acquire()
            with vos.as_process(B):
                if c.get_lock().acquire(False):
                    return ('the copy\'s get_lock() was acquired while the '
                            'original\'s was held: not the same lock')
                try:
                    got = F['load'](c)
                    return ('accessor of the copy returned %r while another '
                            'process held get_lock()' % (got,))
                except vos.WouldBlock:
                    pass
                try:
                    if kind == 'string':
                        c[1] = b'Z'
                    else:
                        F['store'](c)
                    return ('accessor store of the copy completed while '
                            'another process held get_lock()')
                except vos.WouldBlock:
                    pass
            if raw_get(kind, v) != conv(x2):
                return 'blocked store took effect'
            with vos.as_process(A):
                v.get_lock().release()
            with vos.as_process(B):
                got = F['load'](c)               # now it must not block
            if got != conv(x2):
                return 'value changed: %r' % (got,)
            del v, c
        finally:
            bheap.BufferWrapper._heap = saved
    return None


# ======================================================================
# (c) visibility on real processes (runs with C15_REAL=1, plain billiard)
# ======================================================================
REAL_KEYS = (('rv', 'S', 0), ('ra', 'A3', 0), ('sv', 'SI', 1),
             ('sa', 'AI', 1), ('big', 'A600', 1))


def _real_read(name, objs):
    return {k: read(objs[k], name, is_array(s)) for k, s, _ in REAL_KEYS}


def _real_write(name, objs, k):
    out = {}
    for j, (key, s, _) in enumerate(REAL_KEYS):
        n = ARRLEN[s] if is_array(s) else 1
        out[key] = write_all(objs[key], name, is_array(s), n, 10 * k + j)
    return out


def _real_child(name, objs, conn):
    try:
        conn.send(('R1', _real_read(name, objs)))
        conn.recv()
        conn.send(('R2', _real_read(name, objs)))
        conn.send(('W3', _real_write(name, objs, 3)))
        conn.recv()
    except BaseException as exc:                    # noqa
        try:
            conn.send(('EXC', '%s: %s' % (type(exc).__name__, exc)))
        except Exception:                           # noqa
            pass
        raise
    finally:
        conn.close()


def _real_case(method, name):
    """One cell of the matrix.  Returns (status, detail); status in
    'ok' | 'violation' | 'error' (infrastructure, not a verdict)."""
    ctx = billiard.get_context(method)
    objs = {k: make(ctx, name, s, w) for k, s, w in REAL_KEYS}
    init = {k: expected(name, s) for k, s, _ in REAL_KEYS}
    if _real_read(name, objs) != init:
        return 'violation', 'parent: new objects do not read as their ' \
            'initial values: %r' % (_real_read(name, objs),)
    w1 = _real_write(name, objs, 1)
    pc, cc = ctx.Pipe()
    p = ctx.Process(target=_real_child, args=(name, objs, cc))
    p.daemon = True
    p.start()
    cc.close()
    steps = []
    try:
        tag, r1 = pc.recv()
        if tag == 'EXC':
            return 'violation', 'child raised %s' % (r1,)
        steps.append('R1')
        if r1 != w1:
            return 'violation', ('child does not see what the parent wrote '
                                 'before start: %s' % _diff(r1, w1))
        w2 = _real_write(name, objs, 2)
        pc.send('go')
        tag, r2 = pc.recv()
        if tag == 'EXC':
            return 'violation', 'child raised %s' % (r2,)
        steps.append('R2')
        if r2 != w2:
            return 'violation', ('child does not see what the parent wrote '
                                 'after start: %s' % _diff(r2, w2))
        tag, w3 = pc.recv()
        if tag == 'EXC':
            return 'violation', 'child raised %s' % (w3,)
        steps.append('W3')
        got = _real_read(name, objs)
        if got != w3:
            return 'violation', ('parent does not see what the child wrote '
                                 '(child still alive): %s' % _diff(got, w3))
        pc.send('bye')
        p.join()
        if p.exitcode != 0:
            return 'error', 'child exit code %r' % (p.exitcode,)
        got = _real_read(name, objs)
        if got != w3:
            return 'violation', ('parent does not see what the child wrote '
                                 '(after join): %s' % _diff(got, w3))
        return 'ok', 'R1,R2,W3,join'
    except EOFError:
        p.join()
        return 'error', 'child died after %r, exit code %r' % (
            steps, p.exitcode)
    finally:
        pc.close()
        if p.is_alive():
            p.terminate()
            p.join()


def _diff(got, exp):
    out = []
    for k in exp:
        if got.get(k) != exp[k]:
            out.append('%s: got %r expected %r' % (
                k, _short(got.get(k)), _short(exp[k])))
    return '; '.join(out)[:600]


def _alloc_child(conn):
    try:
        ctx = billiard.get_context('fork')
        c = ctx.Value('i', 111)
        conn.send(('made', c.value))
        conn.recv()                      # parent has allocated and written
        conn.send(('still', c.value))
        c.value = 333
        conn.send(('wrote', c.value))
        conn.recv()
    finally:
        conn.close()


def _real_alloc_after_fork(method):
    """Storage handed out in a forked child and storage handed out in the
    parent afterwards are different storage."""
    ctx = billiard.get_context(method)
    first = ctx.Value('i', 1)            # an arena with free space exists
    pc, cc = ctx.Pipe()
    p = ctx.Process(target=_alloc_child, args=(cc,))
    p.daemon = True
    p.start()
    cc.close()
    try:
        tag, v = pc.recv()
        if (tag, v) != ('made', 111):
            return 'violation', 'child object reads %r' % ((tag, v),)
        mine = ctx.Value('i', 222)
        mine.value = 0x7777
        pc.send('go')
        tag, v = pc.recv()
        if v != 111:
            return 'violation', ('an object created in the parent after the '
                                 'fork overwrote the object the child had '
                                 'created (child reads %r)' % (v,))
        pc.recv()
        if mine.value != 0x7777 or first.value != 1:
            return 'violation', ('the child\'s write to its own new object '
                                 'changed the parent\'s objects: %r %r' % (
                                     mine.value, first.value))
        pc.send('bye')
        p.join()
        return 'ok', 'alloc-after-fork'
    finally:
        pc.close()
        if p.is_alive():
            p.terminate()
            p.join()


def _real_alloc_after_os_fork(method):
    """The same with a child made by a bare ``os.fork()`` (a daemonising
    application, a third-party library): none of billiard's after-fork
    hooks run there, the allocator itself has to notice the new process."""
    ctx = billiard.get_context('fork')
    first = ctx.Value('i', 1)            # a partly used arena exists
    r1, w1 = os.pipe()
    r2, w2 = os.pipe()
    pid = os.fork()
    if pid == 0:
        code = 1
        try:
            os.close(r1)
            os.close(w2)
            c = ctx.Value('i', 111)
            os.write(w1, b'm')
            os.read(r2, 1)               # parent has allocated and written
            still = c.value == 111
            c.value = 333
            os.write(w1, b'1' if still else b'0')
            os.read(r2, 1)
            code = 0
        finally:
            os._exit(code)
    os.close(w1)
    os.close(r2)
    try:
        if os.read(r1, 1) != b'm':
            return 'violation', 'os.fork child could not create a Value'
        mine = ctx.Value('i', 222)
        mine.value = 0x7777
        os.write(w2, b'g')
        ans = os.read(r1, 1)
        if ans != b'1':
            return 'violation', ('an object created in the parent after a '
                                 'bare os.fork() overwrote the object the '
                                 'child had created (child says %r)' % (ans,))
        if mine.value != 0x7777 or first.value != 1:
            return 'violation', ('the write of a bare os.fork() child to its '
                                 'own new object changed the parent\'s '
                                 'objects: %r %r' % (mine.value, first.value))
        os.write(w2, b'b')
        return 'ok', 'alloc-after-os-fork'
    finally:
        os.close(r1)
        os.close(w2)
        try:
            os.kill(pid, 9)
        except OSError:
            pass
        os.waitpid(pid, 0)


def _locked_child(v, conn):
    try:
        got = v.get_lock().acquire(False)
        conn.send(('acquired', got))
        if got:
            v.get_lock().release()
    finally:
        conn.close()


def _real_fork_while_locked(method):
    """A child forked while the parent holds the object's lock does not
    hold it."""
    ctx = billiard.get_context(method)
    out = []
    for v in (ctx.Value('i', 0), ctx.Array('i', 3)):
        pc, cc = ctx.Pipe()
        v.get_lock().acquire()
        try:
            p = ctx.Process(target=_locked_child, args=(v, cc))
            p.daemon = True
            p.start()
            cc.close()
            tag, got = pc.recv()
            p.join()
        finally:
            v.get_lock().release()
            pc.close()
        out.append(got)
    if any(out):
        return 'violation', ('a child forked while the parent held the '
                             'lock acquired it as well: %r' % (out,))
    return 'ok', 'fork-while-locked'


def real_main():
    """Entry point of the plain interpreter: run the cells named in
    C15_REAL_ARGS, write a JSON result list."""
    args = json.loads(os.environ['C15_REAL_ARGS'])
    res = []
    for method, name in args['cells']:
        try:
            if name == '@alloc':
                status, detail = _real_alloc_after_fork(method)
            elif name == '@locked':
                status, detail = _real_fork_while_locked(method)
            elif name == '@osfork':
                status, detail = _real_alloc_after_os_fork(method)
            else:
                status, detail = _real_case(method, name)
        except Exception as exc:                    # noqa
            import traceback
            status, detail = 'error', traceback.format_exc()[-1500:]
        res.append([method, name, status, detail])
    with open(args['out'] + '.tmp', 'w') as f:
        json.dump(res, f)
    os.replace(args['out'] + '.tmp', args['out'])


def real_methods():
    return [m for m in ('fork', 'spawn', 'forkserver')
            if m in billiard.get_all_start_methods()]


def real_cells(tier):
    quick3 = ('i', 'd', 'T')
    cells = []
    for m in real_methods():
        for t in TYPES:
            if tier == 'thorough' or m == 'fork' or t in quick3:
                cells.append((m, t))
    if 'fork' in real_methods():
        cells.append(('fork', '@alloc'))
        cells.append(('fork', '@locked'))
        cells.append(('fork', '@osfork'))
    return cells


class RealRun:
    """The real-process matrix, started in the background in a plain
    interpreter (own session), collected later."""

    def __init__(self, cells, timeout=300):
        import subprocess
        import tempfile
        self.cells = cells
        self.dir = tempfile.mkdtemp(prefix='c15-real-')
        self.out = os.path.join(self.dir, 'result.json')
        self.timeout = timeout
        env = dict(os.environ, C15_REAL='1',
                   C15_REAL_ARGS=json.dumps(dict(cells=cells, out=self.out)))
        self.log = open(os.path.join(self.dir, 'log'), 'wb')
        self.proc = subprocess.Popen(
            [sys.executable, '-c',
             'from harness import c15; c15.real_main()'],
            env=env, stdin=subprocess.DEVNULL, stdout=self.log,
            stderr=self.log, start_new_session=True,
            cwd=os.path.dirname(os.path.dirname(os.path.abspath(__file__))))

    def collect(self):
        if self.proc is None:
            return None, 'already collected'
        try:
            return self._collect()
        finally:
            self.proc = None

    def _collect(self):
        import shutil
        import signal
        import subprocess
        err = None
        try:
            rc = self.proc.wait(self.timeout)
            if rc != 0:
                err = 'real-process interpreter exited with %r' % (rc,)
        except subprocess.TimeoutExpired:
            err = 'real-process matrix did not finish in %ds' % self.timeout
        try:
            os.killpg(self.proc.pid, signal.SIGKILL)
        except OSError:
            pass
        self.proc.wait()
        self.log.close()
        res = None
        try:
            with open(self.out) as f:
                res = json.load(f)
        except (OSError, ValueError):
            err = err or 'no result file'
        if err:
            with open(os.path.join(self.dir, 'log'), 'rb') as f:
                err += '\n' + f.read().decode('utf8', 'replace')[-3000:]
        shutil.rmtree(self.dir, ignore_errors=True)
        return res, err


# ======================================================================
# driver
# ======================================================================
class HarnessFailure(Exception):
    pass


def main(tier, seed, only=None):
    real = None
    if only is None or 'c' in only:
        real = RealRun(real_cells(tier))
    try:
        return _main(tier, seed, only, real)
    finally:
        if real is not None:
            real.collect()
        linepoints.disable()
        _drop_tempdir()


def _main(tier, seed, only, real):
    import random
    rep = report.Report('C15', tier, seed)
    want = lambda p: only is None or p in only            # noqa: E731
    # machinery trouble (not a verdict): reported as HARNESS-ERROR unless a
    # real violation was found as well, which then takes precedence
    problems = []
    import time as _t
    clock = _t.perf_counter            # not virtualised
    t0 = clock()
    phase = rep.cov['phase_s'] = {}

    # ---- work list of (a) and (b): one parallel map, big items first
    work = []
    deep = []
    if want('a'):
        items, deep = a_items(tier)
        work += [(1, it) for it in items]
    bstats = {}
    cfgs = []
    if want('b'):
        rows, viol = clone_table()
        for cfg, msg in viol:
            rep.violation('%s\nconfig=%r' % (msg, cfg),
                          dict(harness='c15', part='b-clone', config=cfg))
        rep.part('b-clone-table', evaluations=len(rows),
                 outcomes=set(r[0][:2] for r in rows),
                 samples=[repr(rows[0])])
        cfgs = b_configs(tier)
        par.pin()
        for ci, (cfg, bound) in enumerate(cfgs):
            st = bstats[ci] = explore.Stats()
            if cfg['procs'] >= 3 and bound >= 2:
                # split the tree: first levels here, subtrees in workers
                roots = explore.frontier(
                    make_runner(cfg), bound,
                    par.NPROC * (4 if tier == 'thorough' else 1), st)
                work += [(0, ('b', cfg, bound, r, ci)) for r in roots]
            else:
                work.append((0, ('b', cfg, bound, None, ci)))
    try:
        os.sched_setaffinity(0, set(par._ALLCPUS))
    except (OSError, AttributeError):
        pass
    phase['clone_table_and_frontiers'] = round(clock() - t0, 2)
    order = list(range(len(work)))
    random.Random(seed).shuffle(order)
    order.sort(key=lambda i: work[i][0])
    res = par.pmap('harness.c15:_item', [
        work[i][1][:4] if work[i][1][0] == 'b' else work[i][1]
        for i in order])
    results = sorted(zip(order, res), key=lambda x: x[0])
    phase['parallel_map_a_b'] = round(clock() - t0, 2)

    # ---- (a)
    if want('a'):
        parts = {}
        nviol = 0
        for i, d in results:
            if work[i][1][0] == 'b':
                continue
            acc = parts.setdefault(d['part'], dict(
                n=0, ops=0, outcomes=collections.Counter(), layouts=set(),
                samples=[]))
            acc['n'] += d['n']
            acc['ops'] += d['ops']
            acc['outcomes'].update(d['outcomes'])
            acc['layouts'].update(tuple(map(tuple, x)) if x is not None
                                  else None for x in d['layouts'])
            if d['sample'] and len(acc['samples']) < 400:
                acc['samples'].append(d['sample'])
            for hist, msg in d['violations']:
                nviol += 1
                if nviol <= 5:         # the shortest few are enough
                    rep.violation(
                        '%s\nhistory=%r' % (msg, hist),
                        dict(harness='c15', part='a', history=hist))
        for name in sorted(parts):
            acc = parts[name]
            sm = sorted(acc['samples'], key=lambda s: (-s[1][1], repr(s)))
            rep.part(name, evaluations=acc['n'], transitions=acc['ops'],
                     states=len(acc['layouts']),
                     outcomes=acc['outcomes'].keys(),
                     samples=[dict(history=repr(h), outcome=repr(o))
                              for h, o in sm[:2]],
                     outcome_counts={repr(k): v for k, v in
                                     sorted(acc['outcomes'].items())})
        rep.cov['a_bounds'] = dict(
            pairs='[new X, new Y] and [new X, drop 0 (dirty), new Y]: X in '
                  '%d types x %d shapes (wrapper alternating), Y in %d types '
                  'x %d shapes x %s'
                  % (len(TYPES), len(SHAPES), len(TYPES), len(SHAPES),
                     '{raw, lock-wrapped}' if tier == 'thorough' else
                     'wrapper alternating with type, shape and X'),
            deep=[dict(depth=d, types_per_shape_and_position=tw,
                       shapes=list(sh)) for d, tw, sh in deep])
        rep.cov['a_work_items_with_violation'] = nviol
        recycled = sum(v for p in parts.values()
                       for k, v in p['outcomes'].items() if k[1] > 0)
        if not recycled:
            problems.append('no history recycled dirty storage: part (a) is '
                            'vacuous')

    # ---- (b)
    if want('b'):
        for i, d in results:
            if work[i][1][0] == 'b':
                bstats[work[i][1][4]].merge(d)
        by = {}
        lost = {}
        for ci, (cfg, bound) in enumerate(cfgs):
            d = bstats[ci]
            scen = cfg['scenario']
            name = 'b-negative-control' if scen == 'bare' else 'b-' + (
                'increments' if scen in ('with', 'prop', 'ctx') else scen)
            st = by.setdefault(name, explore.Stats())
            st.merge(d.as_dict())
            st.__dict__.setdefault('configs', [])
            st.configs.append(dict(cfg, bound=bound,
                                   executions=d.executions))
            if scen == 'bare':
                total = cfg['procs'] * cfg['rounds']
                finals = set(eval(o)[1] for o in d.outcomes)
                lost[(cfg['kind'], cfg['procs'])] = sorted(
                    f for f in finals if f < total)
            for ch, msg in d.violations[:3]:
                # a verdict must be reproducible from its choice sequence
                again = run_atomic(cfg, ch)
                if again.violation != msg:
                    problems.append(
                        'violation not reproducible: %r vs %r (%r)'
                        % (msg, again.violation, cfg))
                    continue
                rep.violation('%s\nconfig=%r' % (msg, cfg),
                              dict(harness='c15', part='b', config=cfg,
                                   choices=ch))
        for name in sorted(by):
            st = by[name]
            rep.stats(name, st, configs=st.configs)
        if not all(lost.values()):
            problems.append(
                'negative control: unlocked increments never lost an update '
                'within the bound (%r): the exploration is vacuous' % (lost,))
        rep.cov['negative_control_lost_update_finals'] = {
            repr(k): v for k, v in sorted(lost.items())}

    # ---- (c)
    if real is not None:
        res, err = real.collect()
        phase['real_processes_collected'] = round(clock() - t0, 2)
        if err:
            problems.append('real-process part failed: ' + err)
        res = res or []
        errors = [r for r in res if r[2] == 'error']
        if errors:
            problems.append('real-process part: %r' % (errors[:3],))
        for method, name, status, detail in res:
            if status == 'violation':
                rep.violation('%s / type %s: %s' % (method, name, detail),
                              dict(harness='c15', part='c', method=method,
                                   type=name))
        rep.part('c-real-processes', evaluations=len(res),
                 validated=len(res),
                 outcomes=set((r[0], r[2]) for r in res),
                 samples=[repr(r) for r in res[:2]],
                 methods=real_methods(),
                 cells=['%s/%s' % (r[0], r[1]) for r in res],
                 objects_per_cell=[k for k, _, _ in REAL_KEYS])

    rep.assume(
        'CPython: dropping the last reference finalises the BufferWrapper '
        'at once (the harness checks it through a weak reference and falls '
        'back to gc.collect())',
        'VSemLock models the POSIX semaphore under the RLock (conformance: '
        'see C17); copies for other virtual processes are made by '
        'billiard\'s own spawn pickling and map the arena file a second '
        'time, like a spawned child',
        'line granularity of preemption over-approximates where CPython may '
        'switch threads',
        'real-process visibility is exhaustive over type x start method, '
        'not over schedules: both sides are sequenced by pipe messages and '
        'join')
    if problems and not rep.violations:
        raise HarnessFailure('\n'.join(problems))
    if problems:
        rep.cov['harness_problems'] = [p[:2000] for p in problems]
    return rep.finish()


def replay(rp):
    part = rp['part']
    if part == 'a':
        hist = [tuple(o) for o in rp['history']]
        for i, op in enumerate(hist):
            print(i, op)
        msg, step, out = run_history(hist)
        print('outcome', out)
        print('violation at step %r: %s' % (step, msg) if msg
              else 'no violation')
        return 1 if msg else 0
    if part == 'b-clone':
        c = rp['config']
        msg = _clone_case(c['kind'], c['lock'], c['gen'])
        print('violation:', msg)
        return 1 if msg else 0
    if part == 'b':
        trace = []
        x = run_atomic(rp['config'], rp['choices'], trace)
        for e in trace:
            print(e)
        print('status', x.status, 'outcome', x.outcome)
        print('violation:', x.violation)
        return 1 if x.violation else 0
    real = RealRun([(rp['method'], rp['type'])])
    res, err = real.collect()
    print(res, err)
    return 1 if err or any(r[2] != 'ok' for r in res) else 0
