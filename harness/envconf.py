"""Conformance of the environment models with the real kernel objects
(DESIGN.md section 3)."""
import itertools
import threading
from concurrent.futures import ThreadPoolExecutor

from vmc import vos


def _observe(sl):
    return (sl._count(), sl._is_mine(), sl._get_value(), sl._is_zero())


def _apply(sl, op):
    try:
        if op == 'try':
            return sl.acquire(False)
        if op == 'try0':
            return sl.acquire(True, 0)
        sl.release()
        return 'rel'
    except (ValueError, AssertionError) as exc:
        return type(exc).__name__


def semlock_conformance(depth=4):
    """Every sequence of non-blocking operations by two threads, up to
    ``depth``, on every (kind, value, maxvalue) the wrappers create: the
    model and the real ``_multiprocessing.SemLock`` must agree step by step.
    Returns the number of sequences replayed."""
    import _multiprocessing
    kinds = [(vos.SEMAPHORE, 1, 1), (vos.RECURSIVE_MUTEX, 1, 1),
             (vos.SEMAPHORE, 0, vos.SEM_VALUE_MAX),
             (vos.SEMAPHORE, 1, vos.SEM_VALUE_MAX),
             (vos.SEMAPHORE, 2, vos.SEM_VALUE_MAX),
             (vos.SEMAPHORE, 1, 2), (vos.SEMAPHORE, 2, 2)]
    ops = [(t, o) for t in ('A', 'B') for o in ('try', 'try0', 'rel')]
    other = ThreadPoolExecutor(1)
    n = 0
    ctr = itertools.count()
    try:
        for kind, value, maxvalue in kinds:
            for d in range(1, depth + 1):
                for seq in itertools.product(ops, repeat=d):
                    if d < depth and False:
                        continue
                    real = _multiprocessing.SemLock(
                        kind, value, maxvalue, '/vmc-%d-%d' % (
                            vos.MAIN_PID, next(ctr)), True)
                    vos.reset(None)
                    try:
                        model = vos.VSemLock(kind, value, maxvalue, 'x', True)
                        for t, op in seq:
                            if t == 'A':
                                r = (_apply(real, op), _observe(real))
                            else:
                                r = other.submit(
                                    lambda: (_apply(real, op),
                                             _observe(real))).result()
                            with vos.as_process(vos.MAIN_PID, ('seq', t)):
                                m = (_apply(model, op), _observe(model))
                            if r != m:
                                raise AssertionError(
                                    'VSemLock disagrees with the real SemLock'
                                    ' kind=%r seq=%r at %r: real %r model %r'
                                    % ((kind, value, maxvalue), seq, (t, op),
                                       r, m))
                    finally:
                        vos.clear()
                    n += 1
    finally:
        other.shutdown()
    return n
