"""C05 -- hard time limit: job fails, its worker is really gone, pool stays
usable.  L2 event-level BFS (scanner logic, precedence, 'never timed out'
half); the worker's reaction to TERM is L1/L3 (C08)."""
import signal

from harness import c01


def eff(env, rec, which):
    h = rec['h']
    v = h._timeout if which == 'hard' else h._soft_timeout
    return v


def oracle(env, ev):
    now = env.world.now
    pool = env.pool
    if not ev:
        return None
    if ev[0] == 'scan':
        timed = set(rec['h']._worker_pid for rec in env.jobs
                    if rec['h'] is not None and rec['kind'] == 'apply' and
                    rec.get('timed_out_at') == now)
        for sender, pid, sig in getattr(env, 'scan_kills', ()):
            if sig in (int(signal.SIGTERM), int(signal.SIGKILL)) and \
                    pid not in timed:
                return ('the scan sent signal %d to worker %r although no '
                        'job of that worker was timed out in this scan '
                        '(jobs: %r)' % (sig, pid, [env.outcome(r)
                                                   for r in env.jobs]))
        for j, rec in enumerate(env.jobs):
            h = rec['h']
            if h is None or rec['kind'] != 'apply' or rec['discarded']:
                continue
            t = rec['t']
            # per-job limit beats the pool default
            want = t.get('hard') or env.cfg.get('pool', {}).get('timeout')
            if h._timeout != want:
                return ('job %d: effective hard limit %r, expected %r '
                        '(per-job %r, pool %r)' % (
                            j, h._timeout, want, t.get('hard'),
                            env.cfg.get('pool', {}).get('timeout')))
            ta = h._time_accepted
            if want and ta and now >= ta + want and not h.ready():
                return ('job %d still unresolved after a scan at %.3f: '
                        'accepted %.3f, hard limit %.3f' % (j, now, ta, want))
            if rec.get('timed_out_at') == now and not rec.get('kill_checked'):
                rec['kill_checked'] = True
                pid = h._worker_pid
                sigs = [k[2] for k in env.world.kills if k[1] == pid]
                w = env.workers.get(pid)
                if signal.SIGTERM not in sigs:
                    return ('job %d timed out but no termination signal was '
                            'sent to its worker %r (signals %r)' % (
                                j, pid, sigs))
                if w is not None and w.alive:
                    return ('job %d timed out, yet its worker is still '
                            'alive after the scan (signals sent: %r)' % (
                                j, sigs))
                if w is not None and w.status == -9 and \
                        sigs.index(signal.SIGTERM) > sigs.index(signal.SIGKILL):
                    return 'SIGKILL was sent before the termination signal'
    return None


def final(env):
    r = c01.final(env)
    if r:
        return r
    for j, rec in enumerate(env.jobs):
        h = rec['h']
        if h is None or rec['discarded']:
            continue
        if rec['kind'] == 'apply' and h.ready() and not h._success:
            typ = getattr(h._value, 'type', None)
            if typ is not None and typ.__name__ == 'TimeLimitExceeded':
                continue
    # the pool is whole again and would serve a later job
    if env.pool._state == 0 and len(env.pool._pool) != env.pool._processes:
        return ('after settling the pool has %d live workers, configured %d'
                % (len(env.pool._pool), env.pool._processes))
    return None


def configs(tier):
    T = tier == 'thorough'
    out = []
    A = dict(die=(), max_adv=4, put_faults=(), scan=True)
    d = 8 if not T else 10
    ms = 30000 if not T else 400000
    ap = dict(kind='apply', fn='ok')
    ap_h1 = dict(kind='apply', fn='ok', hard=1.0)
    ap_h3 = dict(kind='apply', fn='ok', hard=3.0)
    ap_sh = dict(kind='apply', fn='ok', soft=1.0, hard=2.0)
    mp = dict(kind='map', fn='tenfold', items=[1, 2], chunksize=1)
    im = dict(kind='imap', fn='tenfold', items=[1, 2])
    base = dict(lost_worker_timeout=3.0)
    for name, procs, jobs, pk in (
            ('job-limit/1proc', 1, [ap_h1, ap], dict(base, enable_timeouts=True)),
            ('pool-limit/1proc', 1, [ap, ap], dict(base, timeout=2.0)),
            # no pool default: one job with its own limit next to one
            # without any, both running
            ('job-limit+unlimited/2proc', 2, [ap_h1, ap],
             dict(base, enable_timeouts=True)),
            ('job-beats-pool', 2, [ap_h1, ap_h3, ap], dict(base, timeout=2.0)),
            ('soft+hard', 2, [ap_sh, ap], dict(base, enable_timeouts=True)),
            ('callback-pumps-results', 2,
             [dict(ap_h1, pump_on_timeout=True), ap_h1],
             dict(base, enable_timeouts=True)),
            ('map-shares-pool', 2, [mp, ap_h1], dict(base, timeout=2.0)),
            ('imap-shares-pool', 2, [im, ap], dict(base, timeout=2.0,
                                                    soft_timeout=1.0))):
        out.append(dict(name=name, procs=procs, jobs=jobs, pool=pk,
                        alphabet=dict(A, next=name.startswith('imap')),
                        depth=d, max_states=ms,
                        final='harness.c05:final',
                        oracle='harness.c05:oracle'))
    # a limit expiring on a worker that is not one of the initial ones (the
    # replacement of a worker killed by an earlier limit)
    out.append(dict(name='limit-on-replacement/1proc', procs=1,
                    jobs=[ap_h1, ap_h1], pool=dict(base, enable_timeouts=True),
                    alphabet=dict(A, max_adv=2), depth=d + 5,
                    max_states=ms, final='harness.c05:final',
                    oracle='harness.c05:oracle'))
    return out


def main(tier, seed, only=None):
    from harness import l2run

    def extra(rep):
        from harness import c01_threads
        c01_threads.part(rep, tier, only=('hard',),
                         name='thread-level-scanner-vs-result')
    return l2run.run('C05', tier, seed, configs(tier), [
        'a worker told to terminate either exits before the 0.1 s wait of '
        '_trywaitkill ends or lingers and is SIGKILLed (environment choice); '
        'that the real worker honours the signal is the L1/L3 obligation',
        '"within about one scan period" is decided as: the first scan at or '
        'after the limit fails the job'], only, extra)


def replay(rp):
    if rp.get('harness') == 'c01-threads':
        from harness import c01_threads
        return c01_threads.replay(rp)
    from harness import l2run
    return l2run.replay('C05', rp, configs('thorough') + configs('quick'))
