"""Task callables used by the pool harnesses (picklable by reference)."""


def ok(x):
    return ('ok', x)


def boom(x):
    raise ValueError('boom', x)


def ident(x):
    return x


def tenfold(x):
    return x * 10


def typed(x):
    return (x, type(x).__name__)


def none(x):
    return None


def pair_sum(a, b):
    return a + b


def raise_if(k, x):
    if x == k:
        raise KeyError('item', x)
    return x * 10


class Unsendable:
    """Pickling it fails: a task argument that cannot be sent."""

    def __reduce__(self):
        raise TypeError('cannot send this')


# ---- tasks with explicit scheduling points (layer L1 / L3) -----------------
def _pt(tag):
    from vmc import vos
    vos._point('task', tag)


INVOKED = []          # (pid, name, arg): what really started executing


def _mark(name, arg):
    from vmc import vos
    INVOKED.append((vos.cur_pid(), name, arg))


def work(x):
    _mark('work', x)
    _pt(1)
    _pt(2)
    _pt(3)
    return ('done', x)


def work_raise(x):
    _mark('work_raise', x)
    _pt(1)
    raise ValueError('bad', x)


def work_base(x):
    _mark('work_base', x)
    _pt(1)
    raise KeyboardInterrupt('base', x)


def work_unpicklable(x):
    _mark('work_unpicklable', x)
    _pt(1)
    return lambda: x


class _RefusesOS:
    def __reduce__(self):
        raise FileNotFoundError(2, 'no such file', '/nonexistent')


class _RefusesValue:
    def __reduce__(self):
        raise ValueError('cannot be pickled')


def work_unpicklable_os(x):
    """The result's serialisation fails with an OSError."""
    _mark('work_unpicklable_os', x)
    return [x, _RefusesOS()]


def work_unpicklable_value(x):
    _mark('work_unpicklable_value', x)
    return {'k': _RefusesValue()}


def work_catch_soft(x):
    """Catches the soft limit and still returns a value."""
    from billiard.exceptions import SoftTimeLimitExceeded
    _mark('work_catch_soft', x)
    try:
        _pt(1)
        _pt(2)
        _pt(3)
    except SoftTimeLimitExceeded:
        return ('caught-soft', x)
    return ('done', x)


def work_in_except(x):
    """Spends time inside its own exception handler and finally block."""
    _mark('work_in_except', x)
    try:
        try:
            raise KeyError(x)
        except KeyError:
            _pt('in-except-1')
            _pt('in-except-2')
    finally:
        _pt('in-finally')
    return ('done', x)


def sleepy(x):
    """A task that takes virtual time."""
    import time
    _mark('sleepy', x)
    time.sleep(x)
    return ('slept', x)


class TaskFailed(Exception):
    pass


def work_convert(x):
    """Wraps whatever interrupts it -- including the SystemExit of a
    termination signal -- into an ordinary exception."""
    _mark('work_convert', x)
    try:
        _pt(1)
        _pt(2)
    except BaseException as exc:
        raise TaskFailed('wrapped', x) from exc
    return ('done', x)


EXIT_CB = []          # (begin|end, pid) of the slow exit callback below


def slow_exit_cb(pid, status):
    """An embedder's on_process_exit callback that takes a while."""
    import time
    from vmc import vos
    me = vos.cur_pid()
    EXIT_CB.append(('begin', me))
    time.sleep(0.5)
    EXIT_CB.append(('end', me))


def work_swallow(x):
    """Swallows whatever interrupts it -- including the SystemExit of a
    termination signal -- and returns normally."""
    _mark('work_swallow', x)
    try:
        _pt(1)
        _pt(2)
    except BaseException:
        pass
    return ('swallowed', x)


class CallbackError(Exception):
    """Raised by a result callback and listed in callbacks_propagate."""


def sleepy_catch(x):
    """Survives the soft limit and keeps running."""
    import time
    from billiard.exceptions import SoftTimeLimitExceeded
    _mark('sleepy_catch', x)
    try:
        time.sleep(x)
    except SoftTimeLimitExceeded:
        time.sleep(x)
    return ('slept', x)



# ---- worker initializers (run inside the child before the job loop) -------
def init_reset_signals():
    """What application initializers commonly do (Celery's
    process_initializer): put signal dispositions back to the default."""
    import signal
    for name in ('SIGTERM', 'SIGUSR1', 'SIGINT'):
        signal.signal(getattr(signal, name), signal.SIG_DFL)


def init_own_handlers():
    """An initializer that installs handlers of its own."""
    import signal

    def mine(signum, frame):
        raise RuntimeError('application handler for signal %d' % signum)
    signal.signal(signal.SIGTERM, mine)
    signal.signal(signal.SIGUSR1, mine)
