"""C19 -- process exit status and liveness are reported faithfully.

(a)  explicit-state BFS (replay based) over operation / environment histories
     of ONE real ``billiard.process.BaseProcess`` whose ``_Popen`` is the real
     ``popen_fork.Popen`` (poll / wait / terminate) over the virtual process
     table; plus the same alphabet enumerated WITHOUT state de-duplication to a
     smaller depth (cross-check of the state abstraction);
(a2) the parent's ``join`` / ``exitcode`` / ``is_alive`` racing with the child's
     exit: parent and environment as two vthreads, every interleaving within a
     preemption bound, at the granularity of kernel operations and (separate
     configurations) of every source line of the parent-side billiard code.
     The virtual clock advances only when every vthread is blocked, so the time
     a join takes is the time it spent waiting, not time during which the
     parent was descheduled (that would be the scheduler's doing, not join's);
(b)  the complete wait-status table (256 exit codes, signals 1..64 with and
     without the core flag) through the real ``Popen.poll`` decoding, reached
     through every observation path;
(c)  the finite space of exit paths of REAL children x start methods, run in
     plain interpreters (no virtual OS in them: this module is dual mode, see
     below).

Dual mode.  In the checker (and in ``par.pmap`` workers) the first import is
``from vmc import vctx``, which installs the virtual OS before billiard is
imported.  Part (c) must not have the virtual OS (vctx replaces billiard's
semaphore extension and wraps os.waitpid/kill/getpid...), and its child
targets must be importable by name in spawn / forkserver children, so the
same module is imported with ``C19_PLAIN=1`` in those interpreters and then
imports nothing from vmc.
"""
import os as _os_mode_switch

PLAIN = _os_mode_switch.environ.get('C19_PLAIN') == '1'
if not PLAIN:
    from vmc import vctx                                   # noqa: F401 (first)
    from vmc import vos, vproc, par, report, explore, sched as vs
    from vmc import linepoints
    from billiard import popen_fork, process as bprocess
    from billiard import connection as bconnection

import errno                                               # noqa: E402
import json                                                # noqa: E402
import os                                                  # noqa: E402
import signal                                              # noqa: E402
import sys                                                 # noqa: E402

ROOT = os.path.dirname(os.path.dirname(os.path.abspath(__file__)))
STATUSES = (0, 1, 3, 255, -9, -15)
FOREIGN_PID = 7001          # a process that did not create the object
ENV_PID = 7002              # identity of the environment vthread in (a2)
EPS = 1e-9
# join variants of the alphabet: event name -> timeout (a negative timeout is
# an expired deadline: "returns within the timeout" means at once)
JOINS = {'join': None, 'join0': 0, 'join05': 0.5, 'joinm1': -1,
         'joinmq': -0.25}


# ======================================================================
# environment fault injection: os.waitpid as seen by billiard/popen_fork.py
# ======================================================================
class _Fault:
    """One-shot failures of the next waitpid call, the core-dump flag, and
    (a2) EINTR as an explored environment choice."""

    def reset(self):
        self.armed = None        # None | 'EINTR' | 'ECHILD'
        self.consumed = None     # what the current operation consumed
        self.core = False        # report signalled children as core dumped
        self.sched = None        # (a2) scheduler whose choices decide EINTR
        self.budget = 0          # (a2) waitpid calls that may still choose


FAULT = _Fault()
FAULT.reset()


class _OsProxy:
    """``os`` of billiard.popen_fork with a wrapped ``waitpid``."""

    def __getattr__(self, name):
        return getattr(os, name)

    @staticmethod
    def waitpid(pid, flags):
        f = FAULT.armed
        if f is None and FAULT.sched is not None and FAULT.budget > 0:
            FAULT.budget -= 1
            if FAULT.sched.choose(2, 'waitpid:ok/EINTR'):
                f = 'EINTR'
        if f is not None:
            FAULT.armed = None
            FAULT.consumed = f
            if f == 'EINTR':
                raise InterruptedError(errno.EINTR, 'Interrupted system call')
            raise ChildProcessError(errno.ECHILD, 'No child processes')
        rpid, sts = os.waitpid(pid, flags)
        if FAULT.core and rpid and os.WIFSIGNALED(sts):
            sts |= 0x80
        return rpid, sts


if not PLAIN:
    popen_fork.os = _OsProxy()
    TERM = int(popen_fork.TERM_SIGNAL)


def decoded(status):
    """What the statement says exitcode must be for a child that ended with
    ``status`` (n = exit(n), -s = killed by signal s)."""
    return status


# ======================================================================
# (a) histories on one process object
# ======================================================================
class Ref:
    """Reference model.  Everything about the CHILD is ground truth read from
    the virtual process table (the environment); the model itself only
    remembers what the parent did."""

    def __init__(self):
        self.started = False
        self.pid = None
        self.joined = False          # a join observed the exit
        self.closed_early = False    # close() while the status was uncollected


def _vp(w, ref):
    return w.procs[ref.pid] if ref.pid is not None else None


def enabled_events(w, ref):
    vp = _vp(w, ref)
    started = ref.started
    running = started and vp.state == 'running'
    ended = started and not running
    reaped = started and vp.state == 'reaped'
    evs = ['start', 'is_alive', 'exitcode', 'join0', 'join05', 'joinm1',
           'joinmq', 'close',
           'active_children', 'f-start', 'f-join', 'f-is_alive']
    if not started or ended:
        evs.append('join')           # would block while the child runs
    if started:
        evs.append('terminate')
    if running:
        if TERM not in vp.pending:
            evs.append('terminate-late')
        evs.extend('exit:%d' % s for s in STATUSES)
        if TERM in vp.pending:
            evs.append('term-lands')
    if started and not reaped and FAULT.armed is None:
        evs.extend(['eintr', 'echild'])
    return evs


def _call(fn):
    try:
        return ('ok', fn())
    except vos.WouldBlock as exc:
        return ('WouldBlock', str(exc)[:80])
    except BaseException as exc:                        # noqa
        return (type(exc).__name__, str(exc)[:80])


def apply_event(w, proc, ref, ev):
    """Execute one event on the real objects, judge it against the statement.
    Returns (violation message | None, observation)."""
    vp = _vp(w, ref)
    started = ref.started
    ended0 = started and vp.state != 'running'
    status0 = vp.status if ended0 else None
    FAULT.consumed = None
    # ------------------------------------------------------ environment
    if ev.startswith('exit:'):
        vos.proc_exit(ref.pid, int(ev[5:]))
        return None, 'env'
    if ev == 'term-lands':
        vp.pending.remove(TERM)
        vos.proc_exit(ref.pid, -TERM)
        return None, 'env'
    if ev in ('eintr', 'echild'):
        FAULT.armed = ev.upper()
        return None, 'env'
    # ------------------------------------------------------- operations
    if ev == 'start':
        nprocs = len(w.procs)
        r = _call(proc.start)
        if started:
            if r[0] != 'AssertionError':
                return ('second start(): expected AssertionError, got %r'
                        % (r,)), r[0]
            if len(w.procs) != nprocs:
                return 'second start() created another child', r[0]
            return None, 'AssertionError'
        if r[0] != 'ok':
            return 'start() raised %r' % (r,), r[0]
        new = [p for p in w.procs if p != vos.MAIN_PID]
        if len(w.procs) != nprocs + 1:
            return 'start() returned but no child process exists', 'ok'
        ref.started, ref.pid = True, new[-1]
        return None, 'ok'
    if ev in ('f-start', 'f-join', 'f-is_alive'):
        nprocs = len(w.procs)
        fn = {'f-start': proc.start, 'f-join': proc.join,
              'f-is_alive': proc.is_alive}[ev]
        with vos.as_process(FOREIGN_PID):
            r = _call(fn)
        if r[0] != 'AssertionError':
            return ('%s() from a process that did not create the object: '
                    'expected AssertionError, got %r' % (ev[2:], r)), r[0]
        if len(w.procs) != nprocs:
            return 'foreign start() created a child process', r[0]
        return None, 'AssertionError'
    lost = False

    def finish(r):
        nonlocal lost
        lost = FAULT.consumed == 'ECHILD'
        return r
    if ev == 'exitcode':
        r = finish(_call(lambda: proc.exitcode))
        if r[0] != 'ok':
            return 'exitcode raised %r' % (r,), r[0]
        got = r[1]
        if not ended0:
            if got is not None:
                return ('exitcode is %r but the child has not ended'
                        % (got,)), got
        elif not (got == decoded(status0) or (lost and got is None)):
            return ('child ended with status %r: exitcode is %r, expected %r'
                    % (status0, got, decoded(status0))), got
        return None, got
    if ev == 'is_alive':
        r = finish(_call(proc.is_alive))
        if r[0] != 'ok':
            return 'is_alive() raised %r' % (r,), r[0]
        got = r[1]
        if started and not ended0 and got is not True:
            return ('is_alive() is %r but the child has not ended'
                    % (got,)), got
        if ended0 and got is not False and not lost:
            return ('is_alive() is %r after the child ended with status %r'
                    % (got, status0)), got
        return None, got
    if ev == 'active_children':
        r = finish(_call(bprocess.active_children))
        if r[0] != 'ok':
            return 'active_children() raised %r' % (r,), r[0]
        got = proc in r[1]
        if ref.joined and got:
            return ('the process is still in active_children() after a join '
                    'that observed its exit'), got
        return None, got
    if ev in JOINS:
        timeout = JOINS[ev]
        t0 = w.now
        r = finish(_call(lambda: proc.join(timeout)))
        dt = w.now - t0
        if not started:
            return None, r[0]            # statement silent (AssertionError)
        unjudged = (timeout is not None and ref.closed_early and
                    vp.state != 'reaped' and r[0] != 'ok')
        if unjudged:
            # the sentinel was closed by close() while the status was still
            # uncollected: the statement says nothing about this
            return None, 'closed:' + r[0]
        if r[0] == 'WouldBlock':
            return ('%s did not return: it blocks although %s' % (
                ev, 'its timeout is %r' % timeout if timeout is not None
                else 'the child has ended')), r[0]
        if r[0] != 'ok':
            return '%s raised %r' % (ev, r), r[0]
        if timeout is not None and dt > max(timeout, 0) + EPS:
            return ('join(%r) advanced the clock by %.3f s' % (timeout, dt),
                    'late')
        if ended0 and not lost:
            ref.joined = True
            if proc in bprocess._children:
                return ('%s observed the exit (status %r) but the process is '
                        'still in the set of active children'
                        % (ev, status0)), 'still-child'
            return None, 'joined'
        return None, 'returned' if not ended0 else 'returned(status lost)'
    if ev in ('terminate', 'terminate-late'):
        if ev == 'terminate-late':
            vp.handlers[TERM] = 'deferred'     # neither SIG_DFL nor SIG_IGN
        try:
            r = finish(_call(proc.terminate))
        finally:
            vp.handlers.pop(TERM, None)
        if r[0] != 'ok':
            return 'terminate() raised %r' % (r,), r[0]
        return None, 'ok'
    if ev == 'close':
        r = _call(proc.close)
        if r[0] != 'ok':
            return 'close() raised %r' % (r,), r[0]
        if started and vp.state != 'reaped':
            ref.closed_early = True
        return None, 'ok'
    raise ValueError(ev)


def canon(w, proc, ref):
    """State identity: what the parent did, the child's ground truth, and
    every field of the real objects that later behaviour can depend on.
    Dropped: the absolute virtual time (nothing stores a time) and the pid."""
    vp = _vp(w, ref)
    po = proc._popen
    return (ref.started, ref.joined, ref.closed_early, FAULT.armed,
            None if vp is None else (vp.state, vp.status, tuple(vp.pending)),
            None if po is None else (po.returncode, po.sentinel is None),
            proc in bprocess._children)


def run_history(hist):
    """Replay one history on fresh real objects."""
    FAULT.reset()
    vproc.launcher = None
    obs = []
    viol = None
    with vos.fresh(None) as w:
        try:
            ref = Ref()
            proc = vproc.VProcess(name='P')
            for i, ev in enumerate(hist):
                msg, o = apply_event(w, proc, ref, ev)
                obs.append(o)
                if msg is None and ref.joined and proc in bprocess._children:
                    msg = ('the process re-entered the set of active '
                           'children after a join that observed its exit')
                if msg:
                    viol = (i, msg)
                    break
            key = canon(w, proc, ref)
            en = enabled_events(w, ref) if viol is None else []
        finally:
            FAULT.reset()
            vctx.reset_billiard_globals()
    return dict(violation=viol, obs=obs, key=key, enabled=en)


def bfs_histories(depth):
    root = run_history([])
    seen = {root['key']}
    front = [([], root['enabled'])]
    transitions = 0
    outcomes = set()
    samples = []
    maxd = 0
    fix = None
    for d in range(depth):
        nxt = []
        for hist, en in front:
            for ev in en:
                h2 = hist + [ev]
                r = run_history(h2)
                transitions += 1
                if r['violation']:
                    return dict(states=len(seen), transitions=transitions,
                                max_depth=d + 1, outcomes=sorted(outcomes),
                                samples=samples, fixpoint=None,
                                violation=(h2, r['violation'][1]))
                outcomes.add(repr((ev.split(':')[0], r['obs'][-1])))
                if r['key'] not in seen:
                    seen.add(r['key'])
                    nxt.append((h2, r['enabled']))
                    maxd = d + 1
                    if len(samples) < 3 and d + 1 >= 4:
                        samples.append(dict(history=h2, observed=[
                            repr(o) for o in r['obs']]))
        front = nxt
        if not front:
            fix = d + 1
            break
    return dict(states=len(seen), transitions=transitions, max_depth=maxd,
                outcomes=sorted(outcomes), samples=samples, fixpoint=fix,
                violation=None)


def enum_histories(arg):
    """pmap worker: every history (no de-duplication) of exactly ``depth``
    events extending ``prefix``; shorter ones are judged as prefixes."""
    prefix, depth = arg
    n = 0
    outcomes = set()
    stack = [list(prefix)]
    while stack:
        h = stack.pop()
        r = run_history(h)
        n += 1
        if r['violation']:
            i, msg = r['violation']
            return dict(n=n, outcomes=sorted(outcomes),
                        violation=(h[:i + 1], msg))
        outcomes.add(repr(tuple(r['obs'][-2:])))
        if len(h) < depth:
            stack.extend(h + [ev] for ev in reversed(r['enabled']))
    return dict(n=n, outcomes=sorted(outcomes), violation=None)


def enum_roots(levels):
    """All histories of exactly ``levels`` events (work items of the full
    enumeration) plus the number of shorter ones executed on the way."""
    front = [[]]
    n = 0
    for _ in range(levels):
        nxt = []
        for h in front:
            r = run_history(h)
            n += 1
            if r['violation']:
                return [], n, (h, r['violation'][1])
            nxt.extend(h + [ev] for ev in r['enabled'])
        front = nxt
    return front, n, None


# ======================================================================
# (a2) the parent racing with the child's exit (two vthreads)
# ======================================================================
_line_codes = None


def _enable_lines():
    """Every source line of the parent-side code under test becomes a
    scheduling point: the child's exit can land between any two of them."""
    global _line_codes
    if _line_codes is None:
        BP = bprocess.BaseProcess
        _line_codes = linepoints.codes_of(
            popen_fork.Popen.poll, popen_fork.Popen.wait,
            popen_fork.Popen.terminate, popen_fork.Popen.close,
            BP.start, BP.join, BP.is_alive, BP.exitcode, BP.terminate,
            BP.close, bprocess._cleanup, bprocess.active_children,
            bconnection.wait)
    linepoints.enable(_line_codes)


def run_conc(cfg, prefix):
    """cfg: script (parent operations), env (('exit', delay, status) |
    ('on-term', delay)), eintr (number of waitpid calls that may be
    interrupted), lines (line-level preemption inside the billiard code)."""
    choices = vs.Choices(prefix)
    sched = vs.Scheduler(choices, horizon=1000.0 + 60.0, timer_deviation=False,
                         max_steps=3000)
    FAULT.reset()
    vproc.launcher = None
    log = []
    viol = None
    with vos.fresh(sched) as w:
        try:
            if cfg.get('eintr'):
                FAULT.sched, FAULT.budget = sched, cfg['eintr']
            if cfg.get('lines'):
                _enable_lines()
                sched.linepoints = True
            proc = vproc.VProcess(name='P')
            child = {}

            def vp():
                return w.procs.get(child.get('pid'))

            def ended():
                p = vp()
                return p is not None and p.state != 'running'

            def runner(who, script):
                def body():
                    if who != 'parent':     # a second thread of the parent
                        sched.point('obs:wait-start', None,
                                    lambda: 'pid' in child)
                    return run_script(who, script)
                return body

            def run_script(who, script):
                for op in script:
                    e0, t0 = ended(), w.now
                    s0 = vp().status if e0 else None
                    if op == 'start':
                        r = _call(proc.start)
                        pids = [p for p in w.procs if p != vos.MAIN_PID]
                        if pids:
                            child['pid'] = pids[-1]
                            if cfg['env'][0] == 'on-term':
                                vp().handlers[TERM] = 'deferred'
                    elif op == 'exitcode':
                        r = _call(lambda: proc.exitcode)
                    elif op == 'returncode':
                        r = _call(lambda: proc._popen.returncode)
                    elif op == 'is_alive':
                        r = _call(proc.is_alive)
                    elif op == 'terminate':
                        r = _call(proc.terminate)
                    elif op == 'active_children':
                        r = _call(lambda: proc in bprocess.active_children())
                    else:
                        r = _call(lambda: proc.join(op[1]))
                    log.append(dict(
                        who=who, op=op, r=r, ended_before=e0,
                        status_before=s0,
                        ended_after=ended(),
                        status_after=vp().status if ended() else None,
                        dt=round(w.now - t0, 6),
                        child=proc in bprocess._children))
                return 'ok'

            def env():
                sched.point('env:wait-start', None, lambda: 'pid' in child)
                kind = cfg['env'][0]
                if kind == 'on-term':
                    sched.point('env:wait-term', None,
                                lambda: TERM in vp().pending)
                    vos.v_sleep(cfg['env'][1])
                    vos.proc_exit(child['pid'], -TERM)
                else:
                    vos.v_sleep(cfg['env'][1])
                    vos.proc_exit(child['pid'], cfg['env'][2])
                return 'ok'
            pts = [sched.spawn(runner('parent', cfg['script']), 'parent',
                               pid=vos.MAIN_PID)]
            if cfg.get('observer'):
                pts.append(sched.spawn(runner('observer', cfg['observer']),
                                       'observer', pid=vos.MAIN_PID))
            sched.spawn(env, 'env', pid=ENV_PID, daemon=True)
            sched.run()
            status = sched.status
            excs = [t.exc for t in pts if t.exc is not None]
            if excs:
                viol = 'harness/parent raised %r' % (excs,)
            elif status != 'done':
                viol = ('the parent did not finish (%s) after %r: %r' % (
                    status, [e['op'] for e in log], sched.describe()))
            elif cfg.get('observer'):
                sched.linepoints = False
                last = _call(lambda: proc.exitcode) if ended() else None
                viol = judge_threads(log, vp().status if ended() else None,
                                     last)
            else:
                viol = judge_conc(log)
        finally:
            sched.linepoints = False
            FAULT.reset()
            vctx.reset_billiard_globals()
    outcome = tuple((e['who'][0] + ':' + str(e['op']),
                     e['r'][0] if e['r'][0] != 'ok'
                     else repr(e['r'][1]), e['ended_before'], e['ended_after'])
                    for e in log)
    return explore.Execution(choices.decisions, outcome=outcome,
                             violation=viol, log=log, status=status)


def judge_conc(log):
    joined = False
    for e in log:
        op, r = e['op'], e['r']
        name = op if isinstance(op, str) else 'join(%r)' % (op[1],)
        if r[0] != 'ok':
            return '%s raised %r' % (name, r)
        got = r[1]
        if op == 'exitcode':
            if not e['ended_after'] and got is not None:
                return 'exitcode is %r but the child has not ended' % (got,)
            if e['ended_before'] and got != decoded(e['status_before']):
                return ('child ended with status %r before exitcode was read:'
                        ' got %r' % (e['status_before'], got))
            if got is not None and got != decoded(e['status_after']):
                return ('exitcode %r, the child ended with status %r'
                        % (got, e['status_after']))
        elif op == 'is_alive':
            if not e['ended_after'] and got is not True:
                return 'is_alive() is %r but the child has not ended' % (got,)
            if e['ended_before'] and got is not False:
                return ('is_alive() is %r, the child had ended with status '
                        '%r' % (got, e['status_before']))
        elif op == 'active_children':
            if joined and got:
                return 'still in active_children() after a successful join'
        elif not isinstance(op, str):
            timeout = op[1]
            if timeout is not None and e['dt'] > max(timeout, 0) + EPS:
                return ('join(%r) took %.3f virtual seconds'
                        % (timeout, e['dt']))
            if timeout is None or e['ended_before']:
                # an untimed join that returned, or any join begun after the
                # child ended, is a successful join
                joined = True
        if joined and e['child']:
            return ('the process is in the set of active children after a '
                    'successful join (%s)' % name)
    return None


def judge_threads(log, final, last):
    """Two threads of the parent use the same process object.  The statement
    does not speak about threads, and on the pinned tree the thread that loses
    the waitpid race legitimately sees "no status yet" (ECHILD -> None) for a
    moment.  What must hold at every instant: a reported status is the child's
    real one, never an intermediate value, and liveness is only denied to a
    child that has ended."""
    for e in log:
        op, r = e['op'], e['r']
        name = op if isinstance(op, str) else 'join(%r)' % (op[1],)
        if r[0] != 'ok':
            return '%s raised %r (thread %s)' % (name, r, e['who'])
        got = r[1]
        if op in ('exitcode', 'returncode') and got is not None:
            if not e['ended_after']:
                return ('%s is %r but the child has not ended'
                        % (op, got))
            if got != decoded(e['status_after']):
                return ('thread %s read %s == %r while another thread was '
                        'collecting the status; the child ended with status '
                        '%r' % (e['who'], op, got, e['status_after']))
        if op == 'is_alive' and got is not True and not e['ended_after']:
            return 'is_alive() is %r but the child has not ended' % (got,)
        if not isinstance(op, str) and op[1] is not None and \
                e['dt'] > max(op[1], 0) + EPS:
            return 'join(%r) took %.3f virtual seconds' % (op[1], e['dt'])
    if final is not None and last != ('ok', decoded(final)):
        return ('after both threads finished exitcode is %r, the child ended '
                'with status %r' % (last, final))
    return None


def conc_configs(tier):
    T = tier == 'thorough'
    J, J5, J2 = ('join', None), ('join', 0.5), ('join', 2.0)
    scripts = [
        ['start', J, 'exitcode', 'is_alive', 'active_children'],
        ['start', J5, 'exitcode', 'is_alive', J, 'exitcode'],
        ['start', 'is_alive', 'exitcode', J5, J5, J, 'is_alive'],
        ['start', 'exitcode', J2, 'exitcode', 'active_children', J],
        ['start', ('join', 0), 'is_alive', J, 'active_children', 'exitcode'],
        ['start', ('join', -1), 'exitcode', ('join', -0.25), J, 'exitcode'],
    ]
    tscripts = [
        ['start', 'terminate', J, 'exitcode', 'is_alive'],
        ['start', 'terminate', 'exitcode', J5, 'is_alive', J, 'exitcode'],
        ['start', J5, 'terminate', 'is_alive', J, 'active_children'],
    ]
    delays = (0.0, 0.25, 0.5, 0.75)
    sts = (0, 3, -9) if not T else STATUSES
    out = []
    bound = 3 if T else 2
    for sc in scripts:
        for d in delays:
            for s in sts:
                out.append((dict(script=sc, env=('exit', d, s), eintr=0),
                            bound))
        out.append((dict(script=sc, env=('exit', 0.25, 3), eintr=2), bound))
    # the exit landing between any two source lines of the parent-side code
    lb = 3 if T else 2
    for sc in scripts:
        for s in (3, -9):
            out.append((dict(script=sc, env=('exit', 0.0, s), eintr=0,
                             lines=True), lb))
        out.append((dict(script=sc, env=('exit', 0.5, 0), eintr=0,
                         lines=True), lb))
    for sc in tscripts:
        out.append((dict(script=sc, env=('on-term', 0.0), eintr=0,
                         lines=True), lb))
        out.append((dict(script=sc, env=('exit', 0.0, 1), eintr=0,
                         lines=True), lb))
    # a second thread of the parent reads the status while the first collects it
    obs = [['exitcode', 'returncode', 'is_alive', 'exitcode'],
           ['is_alive', 'exitcode']]
    mains = [['start', J, 'exitcode'],
             ['start', 'is_alive', J5, 'exitcode', J],
             ['start', 'exitcode', ('join', 0), 'is_alive', J]]
    for sc in mains:
        for ob in obs:
            for s in ((-9, 3, 0) if not T else STATUSES):
                out.append((dict(script=sc, observer=ob, env=('exit', 0.0, s),
                                 eintr=0, lines=True), lb - 1))
    for sc in tscripts:
        for d in (0.0, 0.05, 0.3):
            out.append((dict(script=sc, env=('on-term', d), eintr=0), bound))
        out.append((dict(script=sc, env=('exit', 0.25, 1), eintr=0), bound))
        out.append((dict(script=sc, env=('on-term', 0.05), eintr=2), bound))
    return out


def explore_conc(arg):
    cfg, bound = arg
    try:
        st = explore.dfs(lambda p, e=None: run_conc(cfg, p), bound)
    finally:
        linepoints.disable()
    return st.as_dict()


# ======================================================================
# (b) the complete status table
# ======================================================================
PATHS = ('exitcode', 'is_alive', 'join', 'join0', 'join05', 'joinm1',
         'active_children')


def status_table(arg):
    """pmap worker: statuses x observation paths; every one ends with
    exitcode read twice."""
    items = arg
    res = []
    for status, core in items:
        for path in PATHS:
            FAULT.reset()
            FAULT.core = core
            vproc.launcher = None
            with vos.fresh(None) as w:
                try:
                    proc = vproc.VProcess(name='P')
                    proc.start()
                    pid = [p for p in w.procs if p != vos.MAIN_PID][-1]
                    pre = _call(lambda: (proc.exitcode, proc.is_alive()))
                    vos.proc_exit(pid, status)
                    if path == 'exitcode':
                        first = _call(lambda: proc.exitcode)
                    elif path == 'is_alive':
                        first = _call(proc.is_alive)
                    elif path == 'active_children':
                        first = _call(
                            lambda: proc in bprocess.active_children())
                    else:
                        t = JOINS[path]
                        first = _call(lambda: proc.join(t))
                    got = _call(lambda: (proc.exitcode, proc.exitcode,
                                         proc.is_alive()))
                finally:
                    FAULT.reset()
                    vctx.reset_billiard_globals()
            v = None
            exp = decoded(status)
            if pre != ('ok', (None, True)):
                v = 'before the end: (exitcode, is_alive()) = %r' % (pre,)
            elif first[0] != 'ok':
                v = '%s raised %r' % (path, first)
            elif path == 'exitcode' and first[1] != exp:
                v = 'exitcode %r, expected %r' % (first[1], exp)
            elif path in ('is_alive', 'active_children') and \
                    first[1] is not False:
                v = '%s gave %r after the child ended' % (path, first[1])
            elif got != ('ok', (exp, exp, False)):
                v = ('after %s: (exitcode, exitcode, is_alive()) = %r, '
                     'expected (%r, %r, False)' % (path, got, exp, exp))
            res.append(dict(status=status, core=core, path=path,
                            got=repr(got[1]), violation=v))
    return res


def table_items():
    items = [(c, False) for c in range(256)]
    items += [(-s, False) for s in range(1, 65)]
    items += [(-s, True) for s in range(1, 65)]
    return items


# ======================================================================
# (c) real children -- everything below down to the driver runs ONLY in plain
#     interpreters (C19_PLAIN=1): no vmc, the real os, real processes
# ======================================================================
NOT_FATAL = ('SIGCHLD', 'SIGCONT', 'SIGURG', 'SIGWINCH', 'SIGSTOP', 'SIGTSTP',
             'SIGTTIN', 'SIGTTOU')
GATE_WAIT_S = 300           # leak protection only: a gated child gives up
SURVIVED = 97               # exit status of a child its signal did not kill
GAVE_UP = 98                # exit status of a child whose gate never opened


WATCHDOG_S = 15             # see guarded_joins
WATCHDOG_TRIPS = 5
TIMED_JOINS = (('join(0)', 0), ('join(-1)', -1), ('join(-0.25)', -0.25),
               ('join(timeout=0.05)', 0.05))


class Helper:
    """A raw fork()ed echo process (no billiard code in it).  A completed
    round trip shows that this process AND another one were scheduled: while
    round trips complete, machine load is not what keeps a call from
    returning."""

    def __init__(self):
        a_r, a_w = os.pipe()
        b_r, b_w = os.pipe()
        self.pid = os.fork()
        if self.pid == 0:
            try:
                os.close(a_w)
                os.close(b_r)
                while True:
                    d = os.read(a_r, 1)
                    if not d:
                        break
                    os.write(b_w, d)
            finally:
                os._exit(0)
        os.close(a_r)
        os.close(b_w)
        self.w, self.r = a_w, b_r

    def round_trip(self):
        os.write(self.w, b'x')
        return os.read(self.r, 1) == b'x'

    def close(self):
        try:
            os.kill(self.pid, signal.SIGKILL)
        except OSError:
            pass
        os.waitpid(self.pid, 0)


HELPER = None


def guarded_joins(errors, obs, p, calls):
    """Timed joins on a child that is blocked on its gate (only this process
    can open it).  They run in a thread; 'did not return' is concluded only
    when the call is still pending after WATCHDOG_S seconds during which
    WATCHDOG_TRIPS round trips with the helper process completed -- a
    logical verdict (the call has no reason left to be pending), not a
    timing bound on a call that returns.  Returns False after a hang (the
    child is then killed so that the pending call comes back)."""
    import threading
    import time
    state = {'at': None}

    def run():
        for label, t in calls:
            state['at'] = label
            try:
                p.join(t)
            except BaseException as exc:                # noqa
                errors.append('%s raised %s: %s' % (
                    label, type(exc).__name__, str(exc)[:120]))
        state['at'] = None
    th = threading.Thread(target=run, daemon=True)
    t0 = time.monotonic()
    th.start()
    th.join(2.0)
    trips = 0
    while th.is_alive() and (time.monotonic() - t0 < WATCHDOG_S or
                             trips < WATCHDOG_TRIPS):
        th.join(1.0)
        if th.is_alive() and HELPER is not None and HELPER.round_trip():
            trips += 1
    if not th.is_alive():
        return True
    obs['hang'] = dict(call=state['at'], round_trips=trips,
                       waited_at_least_s=WATCHDOG_S)
    try:
        os.kill(p.pid, signal.SIGKILL)
    except OSError:
        pass
    th.join(60)
    return False


def fatal_signals():
    skip = {int(getattr(signal, n)) for n in NOT_FATAL if hasattr(signal, n)}
    return sorted(int(s) for s in signal.valid_signals() if int(s) not in skip)


class Boom(BaseException):
    pass


class Oops(Exception):
    pass


def _noop():
    return None


def child_target(gate, ack, kind, arg):
    """Target of every real child: wait until the parent opens the gate,
    acknowledge, then end in the prescribed way."""
    if not gate.poll(GATE_WAIT_S):
        os._exit(GAVE_UP)
    gate.recv_bytes()
    ack.send_bytes(b'passed')
    if kind == 'ret':
        if arg == 'closed-stdout':
            # a target that closed its standard output (a daemonising
            # application): still "returns normally"
            sys.stdout.close()
        return
    if kind == 'exc':
        raise {'Exception': Exception, 'Oops': Oops,
               'ValueError': ValueError}[arg]('c19')
    if kind == 'base':
        raise {'Boom': Boom, 'KeyboardInterrupt': KeyboardInterrupt,
               'GeneratorExit': GeneratorExit}[arg]('c19')
    if kind == 'exit':
        sys.exit(arg)
    if kind == 'exit-noarg':
        sys.exit()
    if kind == 'sig':
        import resource
        import time
        resource.setrlimit(resource.RLIMIT_CORE, (0, 0))
        if arg not in (signal.SIGKILL, signal.SIGSTOP):
            signal.signal(arg, signal.SIG_DFL)
        signal.pthread_sigmask(signal.SIG_UNBLOCK, [arg])
        os.kill(os.getpid(), arg)
        time.sleep(30)
        os._exit(SURVIVED)
    raise RuntimeError('unknown kind %r' % (kind,))


def foreign_target(ack, q, started):
    """A child that tries to use process objects its parent created (both
    inherited by fork)."""
    out = {}
    try:
        q.start()
        out['start'] = 'started'
        try:
            q.join()
        except BaseException:                           # noqa
            pass
    except BaseException as exc:                        # noqa
        out['start'] = type(exc).__name__
    for name, fn in (('join', lambda: started.join(0)),
                     ('is_alive', started.is_alive)):
        try:
            out[name] = repr(fn())
        except BaseException as exc:                    # noqa
            out[name] = type(exc).__name__
    ack.send_bytes(json.dumps(out).encode())


def _try(errors, where, fn):
    try:
        return fn()
    except BaseException as exc:                        # noqa
        errors.append('%s raised %s: %s' % (where, type(exc).__name__,
                                            str(exc)[:120]))
        return 'raised'


def _reap(p):
    """Never leave a child behind."""
    try:
        pid = p.pid
        if pid and p._popen is not None and p._popen.returncode is None:
            try:
                os.kill(pid, signal.SIGKILL)
            except OSError:
                pass
            p.join()
    except BaseException:                               # noqa
        pass


def real_case(case):
    """One real child; returns plain observations (judged in the checker)."""
    import billiard
    method, kind, arg = case['method'], case['kind'], case['arg']
    ctx = billiard.get_context(method)
    if kind == 'foreign':
        return real_foreign(ctx, case)
    errors = []
    obs = dict(case=case, errors=errors)
    gate_r, gate_w = ctx.Pipe(False)
    ack_r, ack_w = ctx.Pipe(False)
    tkind, targ = (kind, arg) if kind != 'pkill' else ('ret', None)
    p = ctx.Process(target=child_target, args=(gate_r, ack_w, tkind, targ))
    try:
        obs['unstarted'] = _try(errors, 'exitcode/is_alive before start',
                                lambda: [p.exitcode, p.is_alive()])
        if case.get('lite'):
            gate_w.send_bytes(b'go')     # the gate is open from the start
        if _try(errors, 'start()', p.start) == 'raised':
            return obs
        if case.get('lite'):
            pass
        else:
            obs['gated'] = _try(
                errors, 'exitcode/is_alive of a blocked child',
                lambda: [p.exitcode, p.is_alive(),
                         p in billiard.active_children()])
            if not guarded_joins(errors, obs, p, TIMED_JOINS):
                return obs
            obs['after_timed_join'] = _try(
                errors, 'exitcode/is_alive after a timed join',
                lambda: [p.exitcode, p.is_alive()])
            if kind == 'pkill':
                if arg == 'terminate':
                    _try(errors, 'terminate()', p.terminate)
                else:
                    os.kill(p.pid, arg)
            else:
                gate_w.send_bytes(b'go')
        if _try(errors, 'join()', p.join) == 'raised':
            return obs
        obs['ended'] = _try(errors, 'exitcode/is_alive after join()',
                            lambda: [p.exitcode, p.is_alive(),
                                     p in billiard.active_children(),
                                     p in p._children, p.exitcode])
        obs['ack'] = (ack_r.recv_bytes().decode()
                      if ack_r.poll(0) else None)
        try:
            p.start()
            obs['second_start'] = 'started'
        except BaseException as exc:                    # noqa
            obs['second_start'] = type(exc).__name__
        _try(errors, 'join(1) after join()', lambda: p.join(1))
        obs['final'] = _try(errors, 'exitcode at the end', lambda: p.exitcode)
    finally:
        _reap(p)
        for c in (gate_r, gate_w, ack_r, ack_w):
            try:
                c.close()
            except BaseException:                       # noqa
                pass
    return obs


def real_foreign(ctx, case):
    import billiard
    errors = []
    obs = dict(case=case, errors=errors)
    ack_r, ack_w = ctx.Pipe(False)
    gate_r, gate_w = ctx.Pipe(False)
    dummy_r, dummy_w = ctx.Pipe(False)
    q = ctx.Process(target=_noop)
    started = ctx.Process(target=child_target,
                          args=(gate_r, dummy_w, 'ret', None))
    p = ctx.Process(target=foreign_target, args=(ack_w, q, started))
    try:
        started.start()
        p.start()
        p.join()
        obs['reporter_exit'] = p.exitcode
        obs['foreign'] = (json.loads(ack_r.recv_bytes().decode())
                          if ack_r.poll(0) else None)
        # the creator itself can still start it, once
        obs['own_start'] = _try(errors, 'start() by the creator', q.start)
        _try(errors, 'join()', q.join)
        obs['own_exit'] = q.exitcode
        obs['own_active'] = q in billiard.active_children()
        gate_w.send_bytes(b'go')
        started.join()
        obs['started_exit'] = started.exitcode
    finally:
        for x in (p, q, started):
            _reap(x)
    return obs


def real_main():
    """Entry point of the plain interpreter: C19_ARGS = {cases, out}."""
    assert PLAIN and 'vmc.vos' not in sys.modules
    args = json.loads(os.environ['C19_ARGS'])
    try:        # the pmap worker that started us is pinned to one CPU
        os.sched_setaffinity(0, set(args['cpus']))
    except (OSError, AttributeError, KeyError, ValueError):
        pass
    res = []
    import time
    global HELPER
    HELPER = Helper()
    aborted = None
    for case in args['cases']:
        t0 = time.monotonic()
        try:
            res.append(real_case(case))
            res[-1]['wall_s'] = round(time.monotonic() - t0, 2)  # diagnostics
            if (res[-1].get('ended') or [None])[0] == GAVE_UP and \
                    case['arg'] != GAVE_UP:
                aborted = 'gate'
                break          # a parent call blocked for GATE_WAIT_S: stop
            if 'hang' in res[-1]:
                aborted = 'hang'
                break          # every further case would wait as long
        except BaseException as exc:                    # noqa
            import traceback
            res.append(dict(case=case, errors=[],
                            crash=traceback.format_exc()[-1500:]))
    HELPER.close()
    import billiard
    left = [repr(c) for c in billiard.active_children()]
    with open(args['out'] + '.tmp', 'w') as f:
        json.dump(dict(results=res, left=left, aborted=aborted), f)
    os.replace(args['out'] + '.tmp', args['out'])


# ---------------------------------------------------------------- checker side
def real_cases(tier):
    T = tier == 'thorough'
    sigs = fatal_signals()
    full = [('ret', None), ('ret', 'closed-stdout')]
    full += [('exc', n) for n in ('Exception', 'Oops', 'ValueError')]
    full += [('base', n) for n in ('Boom', 'KeyboardInterrupt',
                                   'GeneratorExit')]
    full += [('exit', n) for n in range(256)]
    full += [('exit', 'text'), ('exit', None), ('exit-noarg', None)]
    full += [('sig', s) for s in sigs]
    full += [('pkill', int(signal.SIGKILL)), ('pkill', int(signal.SIGTERM)),
             ('pkill', int(signal.SIGSEGV)), ('pkill', 'terminate')]
    bsig = [int(getattr(signal, n)) for n in (
        'SIGKILL', 'SIGTERM', 'SIGINT', 'SIGHUP', 'SIGSEGV', 'SIGUSR1',
        'SIGPIPE')]
    boundary = [('ret', None), ('ret', 'closed-stdout'),
                ('exc', 'Exception'), ('base', 'Boom'),
                ('base', 'KeyboardInterrupt')]
    boundary += [('exit', n) for n in (0, 1, 2, 3, 127, 128, 255)]
    boundary += [('exit', 'text'), ('exit', None), ('exit-noarg', None)]
    boundary += [('sig', s) for s in bsig]
    boundary += [('pkill', int(signal.SIGKILL)), ('pkill', 'terminate')]
    cases = []
    for m in ('fork', 'spawn', 'forkserver'):
        for kind, arg in (full if (T or m == 'fork') else boundary):
            c = dict(method=m, kind=kind, arg=arg)
            if not T and (kind, arg) not in boundary and kind == 'exit':
                # quick: the other 249 exit codes without the gate protocol
                # (start, join, exitcode, second start)
                c['lite'] = True
            cases.append(c)
    cases.append(dict(method='fork', kind='foreign', arg=None))
    return cases


def case_id(case):
    return '%s/%s/%s' % (case['method'], case['kind'], case['arg'])


def judge_real(o):
    """Violation message or None; only what the statement says."""
    case = o['case']
    m, kind, arg = case['method'], case['kind'], case['arg']
    if o.get('crash'):
        return None
    if o.get('hang'):
        h = o['hang']
        return ('%s on a running child (blocked on a pipe only the parent '
                'writes to) did not return: still pending after %d s during '
                'which %d round trips with a helper process completed; it '
                'came back only when the child was killed'
                % (h['call'], h['waited_at_least_s'], h['round_trips']))
    if o['errors']:
        return 'an operation raised: %s' % '; '.join(o['errors'])
    if kind == 'foreign':
        f = o.get('foreign')
        if f is None:
            return None
        if f['start'] != 'AssertionError':
            return ('start() of an unstarted process object by a process '
                    'that did not create it (inherited by fork): %s, '
                    'expected AssertionError' % f['start'])
        if o['own_start'] == 'raised' or o['own_exit'] != 0:
            return ('the creator could not run the process afterwards: %r'
                    % (o,))
        return None
    if 'ended' not in o:
        return None
    if 'gated' in o and o['gated'][:2] != [None, True]:
        return ('child blocked on the gate (it acknowledged after the gate '
                'opened): exitcode=%r is_alive()=%r' % tuple(o['gated'][:2]))
    if 'gated' in o and o['after_timed_join'] != [None, True]:
        return ('after join(0)/join(-1)/join(-0.25)/join(timeout=0.05) on a '
                'blocked child: '
                'exitcode=%r is_alive()=%r' % tuple(o['after_timed_join']))
    code, alive, active, in_set, code2 = o['ended']
    if kind == 'ret':
        exp, why = 0, 'returned normally'
    elif kind in ('exc', 'base'):
        exp, why = 1, 'target raised %s' % arg
    elif kind == 'exit' and isinstance(arg, int):
        exp, why = arg, 'sys.exit(%d)' % arg
    elif kind in ('sig', 'pkill'):
        s = int(signal.SIGTERM) if arg == 'terminate' else arg
        exp, why = -s, 'killed by signal %d' % s
    else:
        exp, why = None, None          # statement silent: recorded only
    if exp is not None:
        if kind in ('sig', 'pkill') and m == 'forkserver':
            if not isinstance(code, int) or code == 0:
                return ('%s under forkserver: exitcode %r, expected a '
                        'non-zero status' % (why, code))
        elif code != exp:
            return '%s (%s): exitcode %r, expected %r' % (why, m, code, exp)
    if code is None:
        return 'exitcode is None after join() returned'
    if alive is not False:
        return 'is_alive() is %r after join() of an ended child' % (alive,)
    if active or in_set:
        return ('after join() the process is still an active child '
                '(active_children(): %r, children set: %r)'
                % (active, in_set))
    if code2 != code or o['final'] != code:
        return ('exitcode changed: %r, then %r, then %r'
                % (code, code2, o['final']))
    if o['second_start'] != 'AssertionError':
        return ('second start(): %s, expected AssertionError'
                % o['second_start'])
    return None


def harness_problem(o):
    """The case could not be judged for a reason that is not billiard's."""
    case = o['case']
    if o.get('crash'):
        return 'case crashed: %s' % o['crash']
    if case['kind'] == 'foreign':
        if o.get('foreign') is None:
            return 'the reporting child sent nothing: %r' % (o,)
        return None
    if o.get('hang') or (o['errors'] and 'ended' not in o):
        return None                    # judged as a violation
    if case['kind'] != 'pkill' and o.get('ack') != 'passed':
        return ('the child never acknowledged the gate (exit %r)'
                % (o.get('ended'),))
    if case['kind'] == 'pkill' and o.get('ack') is not None:
        return 'a child that should have been killed at the gate passed it'
    if o.get('ended') and o['ended'][0] in (SURVIVED, GAVE_UP) and \
            case['arg'] not in (SURVIVED, GAVE_UP):
        return 'child ended with the marker status %r' % (o['ended'][0],)
    return None


def real_chunk(arg):
    """pmap worker: run one chunk of cases in a plain interpreter."""
    import shutil
    import subprocess
    import tempfile
    d = tempfile.mkdtemp(prefix='c19-real-')
    out = os.path.join(d, 'result.json')
    env = dict(os.environ, C19_PLAIN='1',
               C19_ARGS=json.dumps(dict(cases=arg['cases'], out=out,
                                        cpus=list(par._ALLCPUS))))
    env.pop('PYTHONSTARTUP', None)
    exe = '/venv/bin/python' if os.path.exists('/venv/bin/python') \
        else sys.executable
    logp = os.path.join(d, 'log')
    err = None
    with open(logp, 'wb') as log:
        proc = subprocess.Popen(
            [exe, '-c', 'from harness import c19; c19.real_main()'],
            env=env, cwd=ROOT, stdin=subprocess.DEVNULL, stdout=log,
            stderr=log, start_new_session=True)
        try:
            rc = proc.wait(arg['timeout'])
            if rc != 0:
                err = 'plain interpreter exited with %r' % (rc,)
        except subprocess.TimeoutExpired:
            err = 'plain interpreter still running after %d s' % arg['timeout']
        try:
            os.killpg(proc.pid, signal.SIGKILL)     # tracker, forkserver
        except OSError:
            pass
        proc.wait()
    res = None
    try:
        with open(out) as f:
            res = json.load(f)
    except (OSError, ValueError):
        err = err or 'no result file'
    if err:
        with open(logp, 'rb') as f:
            err += '\n' + f.read().decode('utf8', 'replace')[-2000:]
    shutil.rmtree(d, ignore_errors=True)
    return dict(results=res['results'] if res else [],
                left=res['left'] if res else [],
                aborted=res.get('aborted') if res else None, error=err)


REAL_PAR = 8


def run_real(rep, tier, seed):
    import random
    cases = real_cases(tier)
    order = list(range(len(cases)))
    random.Random(seed).shuffle(order)
    chunks = [dict(cases=[], timeout=900 if tier == 'quick' else 3000)
              for _ in range(REAL_PAR)]
    for k, i in enumerate(order):
        chunks[k % REAL_PAR]['cases'].append(cases[i])
    res = par.pmap('harness.c19:real_chunk', chunks)
    got = {}
    problems = []
    hung = any(r.get('aborted') == 'hang' for r in res)
    skipped = 0
    for r in res:
        if r['error']:
            problems.append(r['error'])
        if r['left']:
            problems.append('children left behind: %r' % (r['left'],))
        for o in r['results']:
            got[case_id(o['case'])] = o
    by_method = {}
    silent = {}
    for c in cases:
        cid = case_id(c)
        o = got.get(cid)
        if o is None:
            if hung:
                skipped += 1       # its interpreter stopped after a hang
            else:
                problems.append('no result for %s' % cid)
            continue
        hp = harness_problem(o)
        if hp:
            problems.append('%s: %s' % (cid, hp))
            continue
        v = judge_real(o)
        st = by_method.setdefault(c['method'], dict(n=0, outcomes=set(),
                                                    samples=[]))
        st['n'] += 1
        if c['kind'] == 'foreign':
            out = ('foreign', json.dumps(o['foreign'], sort_keys=True))
        else:
            code = o['ended'][0] if 'ended' in o else None
            cls = c['kind'] if c['kind'] != 'exit' else (
                'exit-int' if isinstance(c['arg'], int) else
                'exit-%r' % (c['arg'],))
            out = (cls, code if c['kind'] in ('sig', 'pkill', 'exit')
                   else code, o.get('second_start'))
            if c['kind'] in ('exit-noarg',) or (
                    c['kind'] == 'exit' and not isinstance(c['arg'], int)):
                silent['%s sys.exit(%s)' % (
                    c['method'], '' if c['kind'] == 'exit-noarg'
                    else repr(c['arg']))] = code
        st['outcomes'].add(out)
        if len(st['samples']) < 2 and c['kind'] in ('sig', 'exit', 'foreign'):
            st['samples'].append({k: o[k] for k in o
                                  if k not in ('errors', 'wall_s')})
        if v:
            rep.violation('%s\ncase=%s observed=%r' % (v, cid, o),
                          dict(harness='c19-real', case=c))
    for m in sorted(by_method):
        st = by_method[m]
        rep.part('real/' + m, evaluations=st['n'], validated=st['n'],
                 without_gate_protocol=sum(
                     1 for c in cases if c['method'] == m and c.get('lite')),
                 outcomes=sorted(map(repr, st['outcomes'])),
                 samples=st['samples'],
                 recorded_not_judged={k: v for k, v in sorted(silent.items())
                                      if k.startswith(m + ' ')})
    if skipped:
        rep.cov['exhaustive'] = False
        rep.cov['caps'].append('real: %d cases not run (their interpreter '
                               'stopped after a call that did not return)'
                               % skipped)
    if problems:
        raise vs.HarnessError('real-process part could not be judged:\n' +
                              '\n'.join(problems[:10]))


# ======================================================================
# driver
# ======================================================================
def main(tier, seed, only=None):
    import random
    T = tier == 'thorough'
    rep = report.Report('C19', tier, seed)
    want = lambda name: not only or name in only         # noqa: E731
    # ------------------------------------------------------------- (a)
    if want('bfs'):
        depth = 8 if T else 6
        r = bfs_histories(depth)
        rep.part('bfs', evaluations=r['transitions'], states=r['states'],
                 transitions=r['transitions'], outcomes=r['outcomes'],
                 samples=r['samples'], depth_bound=depth,
                 max_depth=r['max_depth'],
                 fixpoint_at_depth=r['fixpoint'],
                 events=['start', 'is_alive', 'exitcode', 'join', 'join0',
                         'join05', 'joinm1', 'joinmq', 'terminate', 'terminate-late', 'close',
                         'active_children', 'f-start', 'f-join', 'f-is_alive',
                         'term-lands', 'eintr', 'echild'] +
                 ['exit:%d' % s for s in STATUSES])
        if r['violation']:
            h, msg = r['violation']
            rep.violation('%s\nhistory=%r' % (msg, h),
                          dict(harness='c19-history', history=h))
    if want('histories') and not rep.violations:
        full = 5 if T else 4
        roots, n0, v = enum_roots(2)
        if v:
            rep.violation('%s\nhistory=%r' % (v[1], v[0]),
                          dict(harness='c19-history', history=v[0]))
        order = list(range(len(roots)))
        random.Random(seed).shuffle(order)
        res = par.pmap('harness.c19:enum_histories',
                       [(roots[i], full) for i in order], chunksize=4)
        n = n0
        outs = set()
        for r in res:
            n += r['n']
            outs.update(r['outcomes'])
        rep.part('histories', evaluations=n, transitions=n,
                 outcomes=sorted(outs), depth=full, deduplicated=False,
                 samples=[roots[order[0]]] if roots else [])
        for r in res:
            if r['violation']:
                h, msg = r['violation']
                rep.violation('%s\nhistory=%r' % (msg, h),
                              dict(harness='c19-history', history=h))
                break
    # ------------------------------------------------------------ (a2)
    if want('race') and not rep.violations:
        cfgs = conc_configs(tier)
        order = list(range(len(cfgs)))
        random.Random(seed).shuffle(order)
        res = par.pmap('harness.c19:explore_conc', [cfgs[i] for i in order],
                       chunksize=2)
        st = explore.Stats()
        for i, d in zip(order, res):
            st.merge(d)
            for ch, msg in d['violations'][:1]:
                rep.violation('%s\nconfig=%r' % (msg, cfgs[i][0]),
                              dict(harness='c19-race', config=cfgs[i][0],
                                   choices=ch))
        st.samples = sorted(st.samples, key=repr)[:3]
        rep.stats('race', st, configs=len(cfgs),
                  bound=cfgs[0][1] if cfgs else None)
    # ------------------------------------------------------------- (b)
    if want('table') and not rep.violations:
        items = table_items()
        order = list(range(len(items)))
        random.Random(seed).shuffle(order)
        k = max(1, len(items) // (par.NPROC * 2))
        chunks = [[items[i] for i in order[j:j + k]]
                  for j in range(0, len(order), k)]
        rows = [x for r in par.pmap('harness.c19:status_table', chunks)
                for x in r]
        rows.sort(key=lambda x: (x['status'], x['core'], x['path']))
        rep.part('table', evaluations=len(rows), validated=len(rows),
                 outcomes=sorted(set((x['status'], x['got']) for x in rows)),
                 samples=[rows[0], rows[len(rows) // 2], rows[-1]],
                 statuses=len(items), paths=list(PATHS))
        for x in rows:
            if x['violation']:
                rep.violation(
                    'status %r%s observed through %s: %s' % (
                        x['status'], ' (core flag)' if x['core'] else '',
                        x['path'], x['violation']),
                    dict(harness='c19-table', status=x['status'],
                         core=x['core'], path=x['path']))
                break
    # ------------------------------------------------------------- (c)
    if want('real') and not rep.violations:
        run_real(rep, tier, seed)
    elif want('real'):
        rep.cov['exhaustive'] = False
        rep.cov['caps'].append('real: skipped, a virtual part already '
                               'reported a violation')
    rep.assume(
        'parts bfs/histories/race/table: the child is an entry of the '
        'virtual process table (vmc.vos); waitpid/kill/pipe semantics are '
        'the model\'s, bound to the kernel by part real (same status pairs '
        'through real fork/waitpid)',
        'EINTR and ECHILD are one-shot failures of the next waitpid call; '
        'after an ECHILD the oracle accepts "status unavailable" (None / '
        'alive) for that call only and never a wrong status',
        'operations on an unstarted process other than start/exitcode, timed '
        'joins after close() of a process whose status was not collected, '
        'sys.exit() / sys.exit(None) / sys.exit(\'text\') are recorded, not '
        'judged: the statement is silent',
        'part real asserts logical outcomes only (no wall-clock bounds); a '
        'child that never reaches its gate, or a plain interpreter that '
        'does not finish, is a harness error, not a verdict',
        'part race: the virtual clock moves only when parent and environment '
        'are both blocked, so "join(t) returns within t" is judged on the '
        'time join spent waiting; scheduling delays of the parent are not '
        'charged to billiard',
        'the virtual parts use one process object; _cleanup() of several '
        'children is outside the alphabet')
    return rep.finish()


def replay(rp):
    h = rp.get('harness')
    if h == 'c19-history':
        hist = rp['history']
        r = run_history(hist)
        for ev, o in zip(hist, r['obs']):
            print('%-16s -> %r' % (ev, o))
        print('violation:', r['violation'])
        return 1 if r['violation'] else 0
    if h == 'c19-race':
        x = run_conc(rp['config'], rp['choices'])
        for e in x.log:
            print(e)
        print('status', x.status, 'violation:', x.violation)
        return 1 if x.violation else 0
    if h == 'c19-table':
        rows = [x for x in status_table([(rp['status'], rp['core'])])
                if x['path'] == rp['path']]
        print(rows)
        return 1 if any(x['violation'] for x in rows) else 0
    if h == 'c19-real':
        r = real_chunk(dict(cases=[rp['case']], timeout=900))
        print(r['error'] or '')
        bad = 0
        for o in r['results']:
            print(json.dumps(o, indent=1, sort_keys=True, default=repr))
            v = harness_problem(o) or judge_real(o)
            print('violation:', v)
            bad += bool(v)
        return 1 if bad or r['error'] else 0
    raise ValueError('unknown replay %r' % (h,))
