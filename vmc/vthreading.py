"""Scheduler-aware look-alikes of ``threading`` / ``queue`` objects, used as
the ``threading`` module attribute of billiard modules.  Every operation is a
scheduling point; with no vthread (sequential drivers) operations complete at
once or raise ``vos.WouldBlock``."""
import collections
import queue as _queue
import threading as _threading

from . import vos
from .sched import TIMEOUT, HarnessError, current
from .vos import _point, cur_tid

TIMEOUT_MAX = _threading.TIMEOUT_MAX
Empty, Full = _queue.Empty, _queue.Full


def _deadline(timeout):
    if timeout is None or timeout < 0:
        return None
    return vos.world().now + timeout


class Lock:

    def __init__(self):
        self._owner = None

    def acquire(self, blocking=True, timeout=-1):
        if not blocking:
            _point('lock.try', self)
            if self._owner is not None:
                return False
        else:
            r = _point('lock.acquire', self, lambda: self._owner is None,
                       _deadline(timeout))
            if r is TIMEOUT:
                return False
        self._owner = cur_tid()
        return True

    def release(self):
        if self._owner is None:
            raise RuntimeError('release unlocked lock')
        _point('lock.release', self)
        self._owner = None

    def locked(self):
        return self._owner is not None

    def __enter__(self):
        self.acquire()
        return True

    def __exit__(self, *a):
        self.release()

    # Condition support
    def _release_save(self):
        self._owner = None

    def _acquire_restore(self, state):
        _point('lock.acquire', self, lambda: self._owner is None)
        self._owner = cur_tid()

    def _is_owned(self):
        return self._owner is not None

    def __repr__(self):
        return '<VLock %s>' % (self._owner,)


class RLock:

    def __init__(self):
        self._owner = None
        self._count = 0

    def acquire(self, blocking=True, timeout=-1):
        me = cur_tid()
        if self._owner == me:
            self._count += 1
            return True
        if not blocking:
            _point('rlock.try', self)
            if self._owner is not None:
                return False
        else:
            r = _point('rlock.acquire', self, lambda: self._owner is None,
                       _deadline(timeout))
            if r is TIMEOUT:
                return False
        self._owner, self._count = me, 1
        return True

    def release(self):
        if self._owner != cur_tid():
            raise RuntimeError('cannot release un-acquired lock')
        if self._count > 1:
            self._count -= 1
            return
        _point('rlock.release', self)
        self._owner, self._count = None, 0

    def __enter__(self):
        self.acquire()
        return True

    def __exit__(self, *a):
        self.release()

    def _release_save(self):
        st = (self._owner, self._count)
        self._owner, self._count = None, 0
        return st

    def _acquire_restore(self, state):
        _point('rlock.acquire', self, lambda: self._owner is None)
        self._owner, self._count = state

    def _is_owned(self):
        return self._owner == cur_tid()


class Condition:

    def __init__(self, lock=None):
        self._lock = lock if lock is not None else RLock()
        self.acquire = self._lock.acquire
        self.release = self._lock.release
        self._waiters = collections.deque()

    def __enter__(self):
        return self._lock.__enter__()

    def __exit__(self, *a):
        return self._lock.__exit__(*a)

    def _is_owned(self):
        return self._lock._is_owned()

    def wait(self, timeout=None):
        if not self._is_owned():
            raise RuntimeError('cannot wait on un-acquired lock')
        tok = [False]
        self._waiters.append(tok)
        saved = self._lock._release_save()
        try:
            r = _point('cond.wait', self, lambda: tok[0], _deadline(timeout))
            if r is TIMEOUT and not tok[0]:
                try:
                    self._waiters.remove(tok)
                except ValueError:
                    pass
                return False
            return True
        finally:
            self._lock._acquire_restore(saved)

    def wait_for(self, predicate, timeout=None):
        endtime = None
        waittime = timeout
        result = predicate()
        while not result:
            if waittime is not None:
                if endtime is None:
                    endtime = vos.world().now + waittime
                else:
                    waittime = endtime - vos.world().now
                    if waittime <= 0:
                        break
            self.wait(waittime)
            result = predicate()
        return result

    def notify(self, n=1):
        if not self._is_owned():
            raise RuntimeError('cannot notify on un-acquired lock')
        _point('cond.notify', self)
        for _ in range(n):
            if not self._waiters:
                break
            self._waiters.popleft()[0] = True

    def notify_all(self):
        self.notify(len(self._waiters) + 1000000)

    notifyAll = notify_all


class Event:

    def __init__(self):
        self._flag = False

    def is_set(self):
        return self._flag

    isSet = is_set

    def set(self):
        _point('event.set', self)
        self._flag = True

    def clear(self):
        _point('event.clear', self)
        self._flag = False

    def wait(self, timeout=None):
        if not self._flag:
            _point('event.wait', self, lambda: self._flag, _deadline(timeout))
        return self._flag


class Semaphore:

    def __init__(self, value=1):
        if value < 0:
            raise ValueError('semaphore initial value must be >= 0')
        self._cond = Condition(Lock())
        self._value = value

    def acquire(self, blocking=True, timeout=None):
        if not blocking and timeout is not None:
            raise ValueError("can't specify timeout for non-blocking acquire")
        rc = False
        endtime = None
        with self._cond:
            while self._value == 0:
                if not blocking:
                    break
                if timeout is not None:
                    if endtime is None:
                        endtime = vos.world().now + timeout
                    else:
                        timeout = endtime - vos.world().now
                        if timeout <= 0:
                            break
                self._cond.wait(timeout)
            else:
                self._value -= 1
                rc = True
        return rc

    __enter__ = acquire

    def release(self, n=1):
        with self._cond:
            self._value += n
            for _ in range(n):
                self._cond.notify()

    def __exit__(self, *a):
        self.release()


class BoundedSemaphore(Semaphore):

    def __init__(self, value=1):
        Semaphore.__init__(self, value)
        self._initial_value = value

    def release(self, n=1):
        with self._cond:
            if self._value + n > self._initial_value:
                raise ValueError('Semaphore released too many times')
            self._value += n
            for _ in range(n):
                self._cond.notify()


class _MainThread:
    name = 'MainThread'
    daemon = False
    ident = 1

    def is_alive(self):
        return True


_main_thread = _MainThread()


class Thread:
    """``threading.Thread`` look-alike whose body runs in a vthread."""

    def __init__(self, group=None, target=None, name=None, args=(),
                 kwargs=None, daemon=None):
        self._target, self._args, self._kwargs = target, args, kwargs or {}
        self.name = name or 'Thread'
        self.daemon = bool(daemon)
        self._vt = None

    def run(self):
        if self._target is not None:
            self._target(*self._args, **self._kwargs)

    def start(self):
        start_thread(self)

    def join(self, timeout=None):
        join_thread(self, timeout)

    def is_alive(self):
        return self._vt is not None and self._vt.state != 'done'

    @property
    def ident(self):
        return None if self._vt is None else 1000 + self._vt.tid

    def setDaemon(self, d):
        self.daemon = d


def start_thread(obj, name=None):
    """Run ``obj.run`` in a new vthread of the caller's virtual process."""
    w = vos.world()
    if w is None or w.sched is None:
        raise HarnessError('thread start without a scheduler')
    _point('thread.start', obj)

    def body():
        current().local['thread_obj'] = obj
        return obj.run()
    obj._vt = w.sched.spawn(body, name or getattr(obj, 'name', None) or
                            type(obj).__name__, pid=vos.cur_pid(),
                            daemon=bool(getattr(obj, 'daemon', False)))
    p = w.procs.get(vos.cur_pid())
    if p is not None:
        p.threads.append(obj._vt)


def join_thread(obj, timeout=None):
    vt = getattr(obj, '_vt', None)
    if vt is None:
        raise RuntimeError('cannot join thread before it is started')
    _point('thread.join', obj, lambda: vt.state == 'done', _deadline(timeout))


def current_thread():
    vt = current()
    if vt is None:
        return _main_thread
    obj = vt.local.get('thread_obj')
    if obj is None:
        obj = vt.local['thread_obj'] = _AnonThread(vt)
    return obj


class _AnonThread:
    daemon = False

    def __init__(self, vt):
        self._vt = vt
        self.name = 'MainThread' if vt.local.get('is_main') else vt.name
        self.ident = 1000 + vt.tid

    def is_alive(self):
        return self._vt.state != 'done'


def main_thread():
    return _main_thread


def get_ident():
    vt = current()
    return 1 if vt is None else 1000 + vt.tid


class local:
    def __init__(self):
        object.__setattr__(self, '_d', {})

    def _ns(self):
        return object.__getattribute__(self, '_d').setdefault(cur_tid(), {})

    def __getattr__(self, k):
        try:
            return self._ns()[k]
        except KeyError:
            raise AttributeError(k)

    def __setattr__(self, k, v):
        self._ns()[k] = v

    def __delattr__(self, k):
        try:
            del self._ns()[k]
        except KeyError:
            raise AttributeError(k)


class Queue:
    """``queue.Queue`` look-alike (unbounded unless maxsize given)."""

    def __init__(self, maxsize=0):
        self.maxsize = maxsize
        self.queue = collections.deque()

    def qsize(self):
        return len(self.queue)

    def empty(self):
        return not self.queue

    def put(self, item, block=True, timeout=None):
        if self.maxsize > 0:
            if not block:
                _point('q.put0', self)
                if len(self.queue) >= self.maxsize:
                    raise Full
            else:
                r = _point('q.put', self,
                           lambda: len(self.queue) < self.maxsize,
                           _deadline(timeout))
                if r is TIMEOUT:
                    raise Full
        else:
            _point('q.put', self)
        self.queue.append(item)

    def get(self, block=True, timeout=None):
        if not block:
            _point('q.get0', self)
            if not self.queue:
                raise Empty
        else:
            r = _point('q.get', self, lambda: bool(self.queue),
                       _deadline(timeout))
            if r is TIMEOUT:
                raise Empty
        return self.queue.popleft()

    def get_nowait(self):
        return self.get(False)

    def put_nowait(self, item):
        return self.put(item, False)


class Namespace:
    """Stands in for the ``threading`` module inside a billiard module."""
    Lock = Lock
    RLock = RLock
    Condition = Condition
    Event = Event
    Semaphore = Semaphore
    BoundedSemaphore = BoundedSemaphore
    Thread = Thread
    TIMEOUT_MAX = TIMEOUT_MAX
    local = local
    current_thread = staticmethod(current_thread)
    currentThread = staticmethod(current_thread)
    main_thread = staticmethod(main_thread)
    get_ident = staticmethod(get_ident)

    def __getattr__(self, name):
        return getattr(_threading, name)


NS = Namespace()
