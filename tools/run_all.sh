#!/bin/bash
# tools/run_all.sh [tier]  -- every claimed check, one line each
cd "$(dirname "$0")/.."
tier=${1:-quick}
for id in $(python3 -c "import json; print(' '.join(c['property_id'] for c in json.load(open('MANIFEST.json'))['checks']))"); do
    s=$(date +%s)
    out=$(./check $id --tier $tier 2>&1); rc=$?
    e=$(( $(date +%s) - s ))
    echo "$id rc=$rc ${e}s $(echo "$out" | grep -c '^KNOWN-FINDING') known :: $(echo "$out" | grep "^$id $tier" | cut -c1-160)"
done
