#!/bin/bash
# tools/try_mutant.sh <patch.diff> <ID> [<ID>...]
# Applies the patch to a scratch copy of /repo, runs the named checks (quick
# tier) against it, prints one line per check, removes the copy.
# Env: TIER=quick|thorough
patch=$(readlink -f "$1"); shift
tmp=$(mktemp -d /var/tmp/vmc-mut-XXXXXX)
cp -r /repo "$tmp/repo"
if ! git -C "$tmp/repo" apply "$patch"; then
    echo "PATCH-DOES-NOT-APPLY $patch"; rm -rf "$tmp"; exit 3
fi
cd /verif
rc_all=0
for id in "$@"; do
    out=$(VMC_REPO="$tmp/repo" VMC_NO_EVIDENCE=1 VMC_REPLAY_DIR="$tmp/replays" ./check "$id" --tier "${TIER:-quick}" 2>&1)
    rc=$?
    first=$(echo "$out" | grep -A1 '^VIOLATION' | sed -n 2p | cut -c1-220)
    echo "$id rc=$rc $(echo "$out" | grep -c '^VIOLATION') violation-lines :: $first"
    [ $rc -eq 1 ] || rc_all=1
done
rm -rf "$tmp"
exit $rc_all
