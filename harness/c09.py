"""C09 -- pool keeps its size; workers are recycled on schedule without harm.
L2 event-level BFS (DESIGN.md 5/C09)."""
from vmc import vctx  # noqa: F401 (virtual OS before billiard)
from harness import c01
import billiard.pool as bp


def oracle(env, ev):
    pool = env.pool
    if not ev:
        return None
    idx = [p.index for p in pool._pool]
    if len(set(idx)) != len(idx):
        return 'two live workers hold the same slot index: %r' % (idx,)
    if ev[0] == 'tick':
        before = getattr(env, '_len_before_tick', None)
        n = len(pool._pool)
        if pool._state == bp.RUN and not getattr(env, 'tick_raised', False):
            pending = [p for p in pool._pool
                       if getattr(p, '_controlled_termination', False)]
            if not pending and n != pool._processes:
                return ('after supervision the pool has %d workers, '
                        'configured size is %d' % (n, pool._processes))
            if before is not None and n > max(pool._processes, before):
                return ('supervision grew the pool to %d (configured %d, '
                        'before %d)' % (n, pool._processes, before))
    env._len_before_tick = len(pool._pool)
    # a job executed twice without any in-task death = duplicated work
    seen = {}
    for w in env.workers.values():
        for t in w.executed:
            seen[t] = seen.get(t, 0) + 1
    dup = [t for t, k in seen.items() if k > 1]
    if dup:
        return 'task(s) %r were executed more than once' % (dup,)
    for w in env.workers.values():
        if w.maxtasks and len(w.executed) > w.maxtasks:
            return 'worker %d executed %d tasks, quota %d' % (
                w.pid, len(w.executed), w.maxtasks)
    return None


def final(env):
    r = c01.final(env)
    if r:
        return r
    in_task_death = any(p.get('state') == 'lost' for rec in env.jobs
                        for p in rec['parts'].values())
    for w in env.workers.values():
        if getattr(w, 'guard_expired', False):
            return ('worker %d had to wait out the %ds result-consumption '
                    'guard before exiting (consumed-counter %d, results sent '
                    '%d): jobs behind it were held up' % (
                        w.pid, 30, w.counter.value, w.completed),
                    'F6:counter-credited-to-wrong-worker')
    if not in_task_death:
        for j, rec in enumerate(env.jobs):
            h = rec['h']
            if h is None or rec['discarded']:
                continue
            if rec['kind'] in ('apply', 'map') and not h._success:
                return ('job %d failed (%r) although no worker died while '
                        'running it: recycling / clean exits must not fail '
                        'jobs' % (j, env.outcome(rec)))
            if rec['kind'].startswith('imap'):
                vals = []
                try:
                    while True:
                        vals.append(h.next(timeout=0))
                except StopIteration:
                    pass
                except Exception as exc:
                    return ('%s job %d raised %r although no worker died '
                            'while running it' % (rec['kind'], j, exc))
                exp = [e[1] for e in rec['expect_items']]
                got = [n[1] for n in rec['nexts'] if n[0] == 'val'] + vals
                if sorted(map(repr, got)) != sorted(map(repr, exp)):
                    return ('%s job %d yielded %r, expected %r' % (
                        rec['kind'], j, got, exp))
    if env.pool._state == bp.RUN and \
            len(env.pool._pool) != env.pool._processes:
        return ('after settling the pool has %d workers, configured %d' % (
            len(env.pool._pool), env.pool._processes))
    return None


def configs(tier):
    T = tier == 'thorough'
    out = []
    d = 8 if not T else 10
    ms = 30000 if not T else 400000
    ap = dict(kind='apply', fn='ok')
    mp = dict(kind='map', fn='tenfold', items=[1, 2, 3], chunksize=1)
    mp2 = dict(kind='map', fn='tenfold', items=[1, 2, 3, 4], chunksize=2)
    imu = dict(kind='imap_unordered', fn='tenfold', items=[1, 2])
    im = dict(kind='imap', fn='tenfold', items=[1, 2])
    base = dict(lost_worker_timeout=3.0)
    idle = dict(die=(0, bp.EX_RECYCLE, 1, -9), die_idle=True, put_faults=(),
                max_adv=2)
    for name, procs, jobs, pk, alpha in (
            ('exits/2', 2, [ap, ap], base, idle),
            ('exits/1', 1, [ap, ap], base, idle),
            ('quota1/apply', 2, [ap, ap, ap], dict(base, maxtasksperchild=1),
             dict(die=(), put_faults=(), max_adv=2)),
            ('quota1/map', 2, [mp], dict(base, maxtasksperchild=1),
             dict(die=(), put_faults=(), max_adv=2)),
            ('quota1/map-chunks-of-2', 2, [mp2], dict(base, maxtasksperchild=1),
             dict(die=(), put_faults=(), max_adv=2)),
            ('quota2/map+apply', 2, [mp, ap], dict(base, maxtasksperchild=2),
             dict(die=(), put_faults=(), max_adv=2)),
            ('quota1/imap', 2, [im], dict(base, maxtasksperchild=1),
             dict(die=(), put_faults=(), max_adv=2, next=True)),
            ('quota1/imap_unordered', 2, [imu], dict(base, maxtasksperchild=1),
             dict(die=(), put_faults=(), max_adv=2, next=True)),
            # the quota-filling job's callback raises an exception the
            # caller asked to have propagated
            ('quota1/raising-callback', 1, [dict(ap, cb_raises=True), ap],
             dict(base, maxtasksperchild=1),
             dict(die=(), put_faults=(), max_adv=2)),
            ('quota1/1proc', 1, [ap, ap], dict(base, maxtasksperchild=1),
             dict(die=(-9,), die_idle=True, put_faults=(), max_adv=2)),
            ('grow-shrink', 2, [ap, ap], base,
             dict(die=(-9,), die_idle=True, put_faults=(), max_adv=1, grow=1,
                  shrink=True)),
            ('grow-shrink/quota', 2, [ap, ap], dict(base, maxtasksperchild=1),
             dict(die=(), put_faults=(), max_adv=1, grow=1, shrink=True))):
        out.append(dict(name=name, procs=procs, jobs=jobs, pool=pk,
                        alphabet=alpha, depth=d, max_states=ms,
                        final='harness.c09:final',
                        oracle='harness.c09:oracle'))
    if T:
        out.append(dict(name='exits/3', procs=3, jobs=[ap, ap, ap], pool=base,
                        alphabet=idle, depth=9, max_states=600000,
                        final='harness.c09:final',
                        oracle='harness.c09:oracle'))
    return out


def l3_size_oracle(sc):
    from harness import l3
    r = sc.res
    if r['host_exit'] is not None:
        return 'a pool thread crashed the host: os._exit(%r)' % r['host_exit']
    if r['errors']:
        return 'exception in a pool/worker thread: %r' % (r['errors'],)
    if r['status'] != 'done' or r['user'][0] != 'done':
        sig = l3.stuck_signature(sc)
        return ('scenario did not finish: %s %r; handlers run inside a '
                'lock\'s __enter__: %r' % (r['status'], r['describe'],
                                           r['sig_after_acquire']), sig)
    chk = r.get('size_check')
    if chk is not None:
        size, members, alive = chk
        if len(alive) != size:
            return ('three supervision rounds after shrink/grow the pool has '
                    '%d live workers (%d in its list), configured size %d'
                    % (len(alive), len(members), size))
    return None


def l3_configs(tier):
    T = tier == 'thorough'
    b = 2 if not T else 3
    out = []
    for name, procs, script in (
            ('shrink-vs-supervisor/2', 2, ['rounds:0', 'sleep:0.7', 'shrink:1',
                                           'rounds:2', 'size', 'terminate']),
            ('grow-vs-supervisor/1', 1, ['rounds:0', 'sleep:0.7', 'grow:1',
                                         'rounds:3', 'size', 'terminate']),
            ('shrink-then-grow/2', 2, ['rounds:0', 'sleep:0.7', 'shrink:1',
                                       'grow:1', 'rounds:3', 'size',
                                       'terminate'])):
        out.append((dict(name=name, procs=procs, jobs=[], script=script,
                         pool={}, oracle='harness.c09:l3_size_oracle',
                         horizon=60.0, timer_deviation=True, budget_s=100,
                         rr=True, linepoints=['shrink', 'grow']), b,
                    60000 if not T else 150000))
    return out


def main(tier, seed, only=None):
    from harness import l2run

    def extra(rep):
        from vmc import explore
        from harness import l3
        cfgs = l3_configs(tier)
        for (cfg, b, cap), d in zip(cfgs, l3.explore_split(
                cfgs, wall_s=1500 if tier == 'thorough' else 300)):
            found = d.pop('found')
            st = explore.Stats()
            st.merge(d)
            rep.stats('L3:' + cfg['name'], st, delay_bound=b,
                      subtrees=d.get('subtrees'))
            for msg, ch, sig, log in found:
                rep.violation(msg + '\nconfig=%s' % cfg['name'],
                              dict(harness='l3', config=cfg, choices=ch),
                              signature=sig)
    return l2run.run('C09', tier, seed, configs(tier), [
        'that the real worker executes at most its quota and exits with the '
        'recycle status only after its results were consumed is the L1 '
        'obligation (C03); here the reference worker does so and the parent '
        'side of the handshake is checked'], only, extra)


def replay(rp):
    if rp.get('harness') == 'l3':
        from harness import l3
        return l3.replay(rp)
    from harness import l2run
    return l2run.replay('C09', rp, configs('thorough') + configs('quick'))
