#!/bin/bash
# tools/confirm_wave.sh <wave> <PROP> [extra check ids...]  -- confirm and file the three candidates of one
# breaker agent (outdir /tmp/w<wave>-out/<PROP>) as seeds <PROP>-w<wave>m<k>, run <PROP> (+extras) on each
w=$1; p=$2; shift 2
cd /verif
for k in 1 2 3; do
  [ -f /tmp/w$w-out/$p/mutant$k.diff ] || { echo "$p $k: no diff"; continue; }
  python3 tools/seed_mutant.py /tmp/w$w-out/$p $k $p-w${w}m$k $p "$@" 2>&1 | tail -2
done
