"""C10 -- the slot semaphore is bounded, conserved and never leaked.
(a) BFS over operation histories on a bare LaxBoundedSemaphore vs a counter
    model; (b) the same operations from 2-3 vthreads with line-level
    preemption inside the class (real threading.Semaphore code over a
    scheduler-aware condition); (c) the pool with putlocks=True on the L2
    engine."""
import itertools

from vmc import vctx  # noqa: F401
from vmc import par, vos, vproc, vthreading, linepoints, explore
from vmc import sched as vs
import billiard.pool as bp
import threading


# ------------------------------------------------------------------ (a)
def _ref_apply(st, op):
    value, bound = st
    if op == 'acq':
        if value > 0:
            return (value - 1, bound), True
        return (value, bound), False
    if op == 'rel':
        if value < bound:
            value += 1
        return (value, bound), None
    if op == 'grow':
        return (value + 1, bound + 1), None
    if op == 'shrink':
        return (value - 1, bound - 1), None
    if op == 'clear':
        return (max(value, bound), bound), None
    raise ValueError(op)


def _do(sem, op):
    if op == 'acq':
        return sem.acquire(False)
    if op == 'rel':
        return sem.release()
    return getattr(sem, op)()


def bare_bfs(arg):
    n, depth = arg
    ops = ('acq', 'rel', 'grow', 'shrink', 'clear')
    seen = {(n, n)}
    front = [()]
    transitions = 0
    viol = None
    outcomes = set()
    for d in range(depth):
        nxt = []
        for hist in front:
            for op in ops:
                # rebuild by replay (fresh real object per history)
                with vos.fresh(None):
                    sem = vproc.use_scheduler_aware_putlock(
                        bp.LaxBoundedSemaphore(n))
                    st = (n, n)
                    ok = True
                    for o in hist + (op,):
                        if o == 'shrink' and (st[0] <= 0 or st[1] <= 0):
                            ok = False      # would block / meaningless
                            break
                        st, exp = _ref_apply(st, o)
                        got = _do(sem, o)
                        if o == 'acq' and got != exp and viol is None:
                            viol = (list(hist + (op,)),
                                    'acquire returned %r, model %r' % (got, exp))
                    if not ok:
                        continue
                    transitions += 1
                    real = (sem._value, sem._initial_value)
                    outcomes.add(real)
                    if viol is None and real != st:
                        viol = (list(hist + (op,)),
                                'after %r: (value, bound) = %r, counter '
                                'model says %r' % (hist + (op,), real, st))
                    if viol is None and not (0 <= real[0] <= real[1]):
                        viol = (list(hist + (op,)),
                                'value %d outside 0..bound %d' % real)
                    if st not in seen or True:
                        key = (d, st)
                        if key not in seen:
                            seen.add(key)
                            nxt.append(hist + (op,))
        front = nxt
    return dict(n=n, states=len(seen), transitions=transitions,
                outcomes=sorted(map(repr, outcomes)), violation=viol,
                sample=list(front[0]) if front else [])


# ------------------------------------------------------------------ (b)
_codes = None


def _enable_lines():
    global _codes
    if _codes is None:
        _codes = linepoints.codes_of(bp.LaxBoundedSemaphore,
                                     threading.Semaphore.acquire,
                                     threading.Semaphore.release)
    linepoints.enable(_codes)


def make_runner(cfg):
    n, taken, scripts = cfg['n'], cfg['taken'], cfg['scripts']

    def run(prefix, expect=None):
        ch = vs.Choices(prefix)
        sched = vs.Scheduler(ch, timer_deviation=False, max_steps=5000)
        worst = [None]
        with vos.fresh(sched):
            sem = vproc.use_scheduler_aware_putlock(bp.LaxBoundedSemaphore(n))
            for _ in range(taken):
                sem._value -= 1
            _enable_lines()

            def body(script):
                def f():
                    out = []
                    for op in script:
                        out.append(_do(sem, op))
                    return out
                return f
            for k, sc in enumerate(scripts):
                sched.spawn(body(sc), 'T%d' % k, pid=vos.MAIN_PID)
            sched.linepoints = True
            try:
                sched.run()
            finally:
                sched.linepoints = False
                linepoints.disable()
            final = (sem._value, sem._initial_value)
            status = sched.status
            errs = [repr(t.exc) for t in sched.threads if t.exc]
        # sequential reference: every order of whole calls
        seqs = set()
        calls = [(k, i) for k, sc in enumerate(scripts)
                 for i in range(len(sc))]
        for perm in itertools.permutations(calls):
            if any(perm.index((k, i)) > perm.index((k, i + 1))
                   for k, sc in enumerate(scripts)
                   for i in range(len(sc) - 1)):
                continue
            st = (n - taken, n)
            ok = True
            for k, i in perm:
                o = scripts[k][i]
                if o == 'shrink' and st[0] <= 0:
                    ok = False       # would have blocked: not a complete run
                    break
                st, _ = _ref_apply(st, o)
            if ok:
                seqs.add(st)
        v = None
        sig = None
        if errs:
            v = 'exception: %r' % (errs,)
        elif status == 'done' and final not in seqs:
            v = ('threads %r from (value=%d, bound=%d) ended with (value, '
                 'bound) = %r; every sequential order gives one of %r' % (
                     scripts, n - taken, n, final, sorted(seqs)))
            if any('shrink' in sc for sc in scripts) and \
                    any('rel' in sc for sc in scripts):
                sig = 'F7:shrink-release-race'
        elif status == 'done' and not (0 <= final[0] <= final[1]):
            v = 'value %d outside 0..bound %d' % final
        elif status not in ('done', 'deadlock'):
            v = 'did not finish: %s' % status
        x = explore.Execution(ch.decisions, outcome=(status, final),
                              violation=v, status=status)
        x.finding = None
        x.extra['signature'] = sig
        return x
    return run


def threads_cfg(arg):
    cfg, bound = arg
    run = make_runner(cfg)
    st = explore.Stats()
    sigs = {}
    stack = [[]]
    while stack:
        p = stack.pop()
        x = run(p, None)
        explore._account(st, x, p)
        if x.violation:
            sigs[x.violation] = (x.extra.get('signature'), list(x.choices))
            st.violations.pop()
            if len(sigs) > 3:
                break
            continue
        stack.extend(reversed(explore.children(x, len(p), bound)))
    d = st.as_dict()
    d['found'] = [(m, s, c) for m, (s, c) in sigs.items()]
    return d


def thread_configs(tier):
    T = tier == 'thorough'
    out = []
    b = 2 if not T else 3
    for n, taken in ((2, 1), (2, 2), (1, 0), (3, 1)):
        for scripts in ([['rel'], ['acq']], [['rel'], ['rel']],
                        [['shrink'], ['rel']], [['grow'], ['rel']],
                        [['grow'], ['acq']], [['shrink'], ['grow']],
                        [['clear'], ['rel']], [['clear'], ['acq']],
                        [['acq', 'rel'], ['acq', 'rel']],
                        [['shrink'], ['rel'], ['rel']],
                        [['grow'], ['shrink'], ['rel']]):
            if len(scripts) == 3 and not T and n != 2:
                continue
            out.append((dict(n=n, taken=taken, scripts=scripts),
                        b if len(scripts) == 2 else max(1, b - 1)))
    return out


# ------------------------------------------------------------------ (c)
def oracle(env, ev):
    pl = env.pool._putlock
    if not (0 <= pl._value <= pl._initial_value):
        return 'slot semaphore value %d outside 0..%d' % (
            pl._value, pl._initial_value)
    if pl._initial_value != env.pool._processes:
        return 'slot bound %d differs from the configured size %d' % (
            pl._initial_value, env.pool._processes)
    exited = any(not w.alive for w in env.workers.values())
    if not exited and not env.closed:
        out = [j for j, r in enumerate(env.jobs)
               if r['h'] is not None and not r['discarded'] and
               not (r['h']._ready if r['kind'].startswith('imap')
                    else r['h'].ready())]
        held = [j for j in out if env.jobs[j]['kind'] == 'apply']
        if len(held) > pl._initial_value:
            return ('%d apply_async jobs in flight with %d slots and no '
                    'worker exit' % (len(held), pl._initial_value))
        # conservation: while nobody exited and the size was not changed,
        # free slots + slots held by unresolved apply_async jobs = bound
        # (a failed send or a time limit resolve a job without giving its
        # slot back before the worker is replaced: F12 / F14, judged at
        # quiescence by final())
        quiet = not env.grown and not any(
            e[0] in ('shrink', 'grow') for e in env.log) and not any(
            r.get('timed_out_at') is not None or r['t'].get('unsendable') or
            any(p.get('state') == 'putfail' for p in r['parts'].values())
            for r in env.jobs)
        if quiet and pl._value + len(held) != pl._initial_value:
            sig = None
            if pl._value + len(held) > pl._initial_value and any(
                    r['kind'] != 'apply' and any(
                        p.get('state') == 'done' for p in r['parts'].values())
                    for r in env.jobs):
                # map()/imap() never take a slot, but every result of one
                # of their parts gives one back
                sig = 'F34:map-part-result-releases-a-slot-never-taken'
            return ('%d of %d slots free while %d apply_async jobs are '
                    'unresolved and no worker has exited (jobs %r)' % (
                        pl._value, pl._initial_value, len(held),
                        [(r['kind'], env.outcome(r)[0]) for r in env.jobs]),
                    sig)
    return None


def final(env):
    from harness import c01
    r = c01.final(env)
    if r:
        return r
    pl = env.pool._putlock
    if env.outbuf.data or env.inbuf.data:
        return None
    if any(w.vp.state == 'zombie' for w in env.workers.values()):
        return None
    if pl._value != pl._initial_value:
        pf = [j for j, r in enumerate(env.jobs)
              if any(p.get('state') == 'putfail' for p in r['parts'].values())
              or r['t'].get('unsendable')]
        sig = 'F12:slot-leak-on-failed-send' if pf else None
        late = [j for j, r in enumerate(env.jobs)
                if r.get('timed_out_at') is not None and any(
                    p.get('state') == 'done' for p in r['parts'].values())]
        if not pf and late:
            # a job failed by the scanner while its result was in flight,
            # its worker (killed) already running the next job
            sig = 'F14:slot-leak-timeout-with-result-in-flight'
        return ('the pool is quiet (no job unresolved, no message in flight, '
                'no zombie) but only %d of %d slots are free%s%s' % (
                    pl._value, pl._initial_value,
                    '; jobs whose send failed: %r' % pf if pf else '',
                    '; jobs timed out with their result in flight: %r' % late
                    if late else ''), sig)
    return None


def configs(tier):
    T = tier == 'thorough'
    out = []
    d = 8 if not T else 10
    ms = 30000 if not T else 300000
    ap = dict(kind='apply', fn='ok')
    apt = dict(kind='apply', fn='ok', tq=True)
    apu = dict(kind='apply', fn='ok', tq=True, unsendable=True)
    aph = dict(kind='apply', fn='ok', hard=1.0)
    base = dict(lost_worker_timeout=3.0, putlocks=True)
    for name, procs, jobs, pk, alpha in (
            ('results+deaths', 2, [ap, ap, ap], base,
             dict(die=(-9, 0), die_idle=True, put_faults=(), max_adv=2)),
            ('raising-callbacks', 2, [dict(ap, cb_raises=True), ap, ap], base,
             dict(die=(-9,), die_idle=False, put_faults=(), max_adv=2)),
            ('1slot', 1, [ap, ap], base,
             dict(die=(-9, 1), die_idle=True, put_faults=(), max_adv=2)),
            ('recycle', 2, [ap, ap, ap], dict(base, maxtasksperchild=1),
             dict(die=(), put_faults=(), max_adv=2)),
            ('hard-limit', 2, [aph, ap, ap], dict(base, enable_timeouts=True),
             dict(die=(), put_faults=(), max_adv=3, scan=True)),
            ('grow-shrink-close', 2, [ap, ap, ap], base,
             dict(die=(), put_faults=(), max_adv=1, grow=1, shrink=True,
                  close=True)),
            ('failed-sends', 2, [apt, apu, ap], base,
             dict(die=(), put_faults=('exc',), max_adv=1)),
            ('apply+map', 2, [ap, dict(kind='map', fn='tenfold', items=[1],
                                       chunksize=1), ap, ap], base,
             dict(die=(), put_faults=(), max_adv=0, scan=False,
                  depth=d + 2))):
        out.append(dict(name=name, procs=procs, jobs=jobs, pool=pk,
                        alphabet=alpha, depth=alpha.pop('depth', d),
                        max_states=ms,
                        final='harness.c10:final',
                        oracle='harness.c10:oracle'))
    return out


def main(tier, seed, only=None):
    from harness import l2run

    def extra(rep):
        T = tier == 'thorough'
        depth = 7 if not T else 9
        for r in par.pmap('harness.c10:bare_bfs',
                          [(n, depth) for n in (1, 2, 3)]):
            rep.part('bare/n=%d' % r['n'], states=r['states'],
                     transitions=r['transitions'],
                     evaluations=r['transitions'], outcomes=r['outcomes'],
                     samples=[r['sample']], depth=depth)
            if r['violation']:
                rep.violation(r['violation'][1], dict(
                    harness='c10-bare', n=r['n'], history=r['violation'][0]))
        tcs = thread_configs(tier)
        st = explore.Stats()
        for (cfg, b), d in zip(tcs, par.pmap('harness.c10:threads_cfg', tcs)):
            found = d.pop('found')
            st.merge(d)
            for msg, sig, ch in found:
                rep.violation(msg, dict(harness='c10-threads', config=cfg,
                                        choices=ch), signature=sig)
        rep.stats('threads+lines', st, configs=len(tcs))
    return l2run.run('C10', tier, seed, configs(tier), [
        'discard() and cancelled jobs are outside the property\'s list of '
        'operations and are left out of the alphabet',
        'line-level preemption over-approximates where CPython switches '
        'threads'], only, extra)


def replay(rp):
    if rp.get('harness') == 'c10-threads':
        x = make_runner(rp['config'])(rp['choices'])
        print(x.outcome, x.violation)
        return 1 if x.violation else 0
    if rp.get('harness') == 'c10-bare':
        with vos.fresh(None):
            sem = vproc.use_scheduler_aware_putlock(
                bp.LaxBoundedSemaphore(rp['n']))
            st = (rp['n'], rp['n'])
            bad = 0
            for o in rp['history']:
                st, _ = _ref_apply(st, o)
                _do(sem, o)
                print(o, (sem._value, sem._initial_value), 'model', st)
                bad += (sem._value, sem._initial_value) != st
        return 1 if bad else 0
    from harness import l2run
    return l2run.replay('C10', rp, configs('thorough') + configs('quick'))
