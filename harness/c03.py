"""C03 -- worker job protocol: accept before run, one result per job, NACK
honoured.  Worker half: layer L1 (the real Worker against WorkerSpec, with
fault injection at every point).  Parent half: accept callback before result
callback, owner recorded, NACK answered -- sequential enumeration of message
orders on the real ApplyResult / ResultHandler handlers."""
import itertools
import signal

from vmc import vctx  # noqa: F401
from vmc import report, par


def parent_case(arg):
    """One order of {cancel, ACK delivered, READY delivered} with an accept
    callback that returns or raises."""
    order, accept_raises, synack = arg
    from vmc import vos, vproc
    vproc.bind()
    import billiard.pool as bp
    log = []
    sent = []
    with vos.fresh(None):
        cache = {}

        def send_ack(response, pid, job, fd):
            sent.append((response, pid, job, fd))

        def acc(pid, t):
            log.append(('accept', pid, t))
            if accept_raises:
                raise ValueError('accept callback failed')
        r = bp.ApplyResult(cache, lambda v: log.append(('result', v)),
                           accept_callback=acc,
                           error_callback=lambda e: log.append(('error',)),
                           send_ack=send_ack if synack else None)
        job = r._job
        rh = bp.ResultHandler(None, None, cache, None, None, None,
                              bp.restart_state(1, 1), None, None,
                              on_ready_counters={})
        for step in order:
            if step == 'cancel':
                r._cancel()
                log.append(('cancelled',))
            elif step == 'ack':
                rh.on_state_change((bp.ACK, (job, None, 1234.5, 4242, 77)))
            elif step == 'ready':
                rh.on_state_change((bp.READY, (job, None, (True, 'v'), 5)))
        out = dict(order=order, accept_raises=accept_raises, synack=synack,
                   log=log, sent=sent, owner=r._worker_pid,
                   pids=r.worker_pids(), accepted=r._accepted,
                   cached=job in cache, ready=r.ready())
    v = None
    names = [e[0] for e in log]
    cancelled_first = 'cancel' in order and 'ack' in order and \
        order.index('cancel') < order.index('ack')
    if 'ack' in order:
        if synack and cancelled_first:
            if 'accept' in names:
                v = 'accept callback ran for a job cancelled before acceptance'
            elif sent != [(bp.NACK, 4242, job, 77)]:
                v = 'cancelled job was answered %r, expected one NACK' % (sent,)
        else:
            acc_ev = [e for e in log if e[0] == 'accept']
            if acc_ev != [('accept', 4242, 1234.5)]:
                v = ('accept callback calls %r, expected (pid=4242, '
                     'time=1234.5) once' % (acc_ev,))
            elif out['pids'] != [4242]:
                v = 'owner recorded as %r, the accepting worker is 4242' % (
                    out['pids'],)
            elif synack:
                want = bp.NACK if accept_raises else bp.ACK
                if sent != [(want, 4242, job, 77)]:
                    v = 'handshake answer %r, expected %r' % (sent, want)
        if 'ready' in order and order.index('ack') < order.index('ready') \
                and 'accept' in names and 'result' in names and \
                names.index('accept') > names.index('result'):
            v = 'result callback ran before the accept callback'
    if v is None and 'ack' in order and 'ready' in order and out['cached']:
        v = 'job still cached after both ACK and READY were processed'
    if v is None and names.count('result') > 1:
        v = 'result callback ran twice'
    out['violation'] = v
    out['log'] = [tuple(e) for e in log]
    return out


def l2_configs(tier):
    """The handshake at pool level: the real parent (``synack=True``, the
    embedder's queue plumbing played by the harness as Celery does) against
    reference workers that wait for the answer to their accept message.
    Histories of submit / cancel / take / deliver / answer-read / finish /
    supervision / scan / clock events."""
    T = tier == 'thorough'
    ap = dict(kind='apply', fn='ok')
    boom = dict(kind='apply', fn='boom')
    base = dict(lost_worker_timeout=3.0, synack=True)
    A = dict(die=(), cancel=True, put_faults=(), max_adv=2, scan=True)
    d = 9 if not T else 11
    ms = 30000 if not T else 400000
    out = []

    def cfg(name, procs, jobs, pool=None, alphabet=None, depth=d):
        out.append(dict(name='L2-handshake/' + name, procs=procs, jobs=jobs,
                        pool=dict(base, **(pool or {})),
                        alphabet=dict(A, **(alphabet or {})), depth=depth,
                        max_states=ms, final='harness.c01:final'))
    cfg('2proc/2apply+cancel', 2, [ap, boom])
    cfg('1proc/3apply+cancel', 1, [ap, ap, ap], depth=d + 1)
    cfg('1proc/quota1+cancel', 1, [ap, ap], pool=dict(maxtasksperchild=1),
        depth=d + 1)
    cfg('2proc/accept-callback-raises', 2, [dict(ap, acc_raises=True), ap],
        alphabet=dict(cancel=False))
    cfg('2proc/cancel+worker-death', 2, [ap, ap],
        alphabet=dict(die=(-9,), die_idle=False))
    cfg('1proc/cancel+limits', 1, [dict(ap, soft=1.0, hard=2.0), ap],
        pool=dict(enable_timeouts=True), depth=d + 1)
    cfg('2proc/cancel+terminate_job', 2, [ap, ap],
        alphabet=dict(terminate_job=True))
    cfg('2proc/map-under-handshake', 2,
        [ap, dict(kind='map', fn='tenfold', items=[1, 2], chunksize=1)],
        alphabet=dict(cancel=False), depth=d - 2)
    return out


def main(tier, seed, only=None):
    from harness import l1, l2run
    rep = report.Report('C03', tier, seed)
    if not only or 'L1' in only:
        l1.part(rep, tier, 'L1-worker-protocol',
                [signal.SIGKILL] if tier == 'quick'
                else [signal.SIGKILL, signal.SIGTERM])
    if not only or 'L2' in only:
        l2run.run_into(rep, 'C03', tier, seed, l2_configs(tier))
    if not only or 'threads' in only:
        from harness import c01_threads
        c01_threads.part(rep, tier, only=('hardscan',),
                         name='thread-level-accept-vs-result')
    steps = ['cancel', 'ack', 'ready']
    cases = []
    for n in (1, 2, 3):
        for order in itertools.permutations(steps, n):
            if 'ready' in order and ('ack' not in order or
                                     order.index('ready') < order.index('ack')):
                continue    # one worker's messages arrive in FIFO order
            for ar in (False, True):
                for sy in (False, True):
                    cases.append((list(order), ar, sy))
    res = par.pmap('harness.c03:parent_case', cases, chunksize=8)
    outs = set()
    for c, r in zip(cases, res):
        outs.add((tuple(r['order']), r['accept_raises'], r['synack'],
                  tuple(e[0] for e in r['log']), tuple(s[0] for s in r['sent'])))
        if r['violation']:
            rep.violation(r['violation'] + '\ncase=%r log=%r' % (c, r['log']),
                          dict(harness='c03-parent', case=c))
    rep.part('parent-handlers', evaluations=len(cases), states=len(outs),
             transitions=len(cases), outcomes=outs, samples=[cases[5]])
    rep.assume('the embedder-provided handshake plumbing (a sync queue per '
               'worker and send_ack writing to it) is played by the harness, '
               'as Celery\'s AsynPool does',
               'signals are delivered to Python code between bytecodes or by '
               'interrupting a blocking call (PEP 475), never in the middle '
               'of a call that completes at once')
    return rep.finish()


def replay(rp):
    if rp.get('harness') == 'c03-parent':
        r = parent_case(tuple(rp['case']))
        print(r)
        return 1 if r['violation'] else 0
    if rp.get('harness') == 'c01-threads':
        from harness import c01_threads
        return c01_threads.replay(rp)
    if rp.get('harness') == 'c03':
        from harness import l2run
        return l2run.replay('C03', rp, l2_configs('thorough') +
                            l2_configs('quick'))
    from harness import l1
    return l1.replay(rp)
