"""C01, thread level: pairs of real entry points that touch one job from
different pool threads, as two vthreads with LINE-level preemption inside
pool.py (DESIGN.md 5/C01 'Thread level')."""
from vmc import vctx  # noqa: F401
from vmc import vos, vproc, vthreading, linepoints, explore, vctx
from vmc import sched as vs

vproc.bind()

import billiard.pool as bp                        # noqa: E402
from billiard.einfo import ExceptionInfo          # noqa: E402

_codes = None


def _lines_on():
    global _codes
    if _codes is None:
        _codes = linepoints.codes_of(
            bp.ApplyResult, bp.MapResult, bp.IMapIterator,
            bp.IMapUnorderedIterator, bp.TimeoutHandler.on_hard_timeout,
            bp.TimeoutHandler.on_soft_timeout, bp.Pool.mark_as_worker_lost,
            bp.TimeoutHandler.handle_timeouts,
            bp.Pool._join_exited_workers,
            bp.ResultHandler._make_methods)
    linepoints.enable(_codes)


class _FakeProc:
    """Stands for a pool member in TimeoutHandler._process_by_pid."""

    def __init__(self, pid):
        self.pid = pid
        self._name = 'w'

    def terminate(self):
        pass

    class _P:
        @staticmethod
        def wait(timeout=None):
            return 0
    _popen = _P()


def make_runner(cfg):
    pair = cfg['pair']

    def run(prefix, expect=None):
        ch = vs.Choices(prefix)
        sched = vs.Scheduler(ch, timer_deviation=False, max_steps=8000)
        log = []
        with vos.fresh(sched) as world:
            cache = {}
            vos.new_proc()       # pid 100 exists so kill()/getpgid work
            world.procs[100].pgid = 1
            vproc.launcher = None
            cbs = []
            soft = 'softscan' in pair
            job = bp.ApplyResult(
                cache, lambda v: cbs.append(('ok', v)),
                error_callback=lambda e: cbs.append(('err', e.type.__name__)),
                accept_callback=lambda pid, t: cbs.append(('acc', pid)),
                timeout=None if soft else 1.0,
                soft_timeout=0.5 if soft else None, lost_worker_timeout=1.0,
                timeout_callback=lambda **kw: cbs.append(('to', kw)))
            sent_when = []
            real_kill = bp._kill

            def spy_kill(pid, sig):
                sent_when.append((int(sig), job.ready()))
                return real_kill(pid, sig)
            bp._kill = spy_kill
            putlock = bp.LaxBoundedSemaphore(2)
            vproc.use_scheduler_aware_putlock(putlock)
            rh = bp.ResultHandler(None, None, cache, None, None, putlock,
                                  bp.restart_state(1, 1), None, None,
                                  on_ready_counters={})
            th = bp.TimeoutHandler([_FakeProc(100)], cache, None,
                                   None if soft else 1.0)
            if cfg.get('acked', True):
                rh.on_state_change((bp.ACK, (job._job, None, 999.0, 100, None)))
            seen = []

            def observe():
                if job.ready():
                    o = (job._success, job._value if job._success
                         else job._value.type.__name__)
                    if not seen or seen[-1] != o:
                        seen.append(o)

            def ready():
                rh.on_state_change((bp.READY, (job._job, None, (True, 'v'),
                                               5)))
                with linepoints.nopreempt():
                    observe()

            def readyfail():
                # the task's own failure arrives as the racing result
                try:
                    raise KeyError('task failed')
                except KeyError:
                    res = (False, ExceptionInfo())
                rh.on_state_change((bp.READY, (job._job, None, res, 5)))
                with linepoints.nopreempt():
                    observe()

            def hard():
                th.on_hard_timeout(job)
                with linepoints.nopreempt():
                    observe()

            # a real Pool object (whatever private bookkeeping its
            # constructor sets up) sharing the job cache, with an empty
            # worker list: only its supervision round is used
            fake = bp.Pool(1, context=vproc.VPoolContext(), threads=False)
            fake._terminate.cancel()
            fake._cache = cache
            del fake._pool[:]

            def lost():
                # the supervisor's round: the real _join_exited_workers with
                # the job already marked (worker gone longer than the timeout)
                job._worker_lost = (world.now - 5.0, -9)
                fake._join_exited_workers()
                with linepoints.nopreempt():
                    observe()

            def putfail():
                try:
                    raise ValueError('cannot send')
                except ValueError:
                    try:
                        cache[job._job]._set(None, (False, ExceptionInfo()))
                    except KeyError:
                        pass
                with linepoints.nopreempt():
                    observe()

            def ack():
                rh.on_state_change((bp.ACK, (job._job, None, 999.0, 100, None)))
                with linepoints.nopreempt():
                    observe()

            def watcher():
                # a user thread looking at the handle at any moment
                for _ in range(3):
                    sched.point('in-cs', None)
                    with linepoints.nopreempt():
                        observe()
            def softscan():
                # one round of the real scan generator
                th.handle_event()
                with linepoints.nopreempt():
                    observe()
            fns = dict(ready=ready, hard=hard, lost=lost, putfail=putfail,
                       readyfail=readyfail,
                       ack=ack, softscan=softscan, hardscan=softscan)
            _lines_on()
            for k, name in enumerate(pair):
                sched.spawn(fns[name], name, pid=vos.MAIN_PID)
            sched.spawn(watcher, 'watcher', pid=vos.MAIN_PID)
            sched.linepoints = True
            try:
                sched.run()
            finally:
                sched.linepoints = False
                linepoints.disable()
                bp._kill = real_kill
                vctx.reset_billiard_globals()
            status = sched.status
            errs = [repr(t.exc) for t in sched.threads if t.exc]
            observe()
            ncb = [c[0] for c in cbs if c[0] in ('ok', 'err')]
            order = [c[0] for c in cbs if c[0] in ('ok', 'err', 'acc')]
            incache = job._job in cache
            kills = [k for k in world.kills if k[1] == 100]
        v = None
        sig = None
        if errs:
            v = 'exception: %r' % (errs,)
        elif status != 'done':
            v = 'did not finish: %s' % status
        elif len(seen) > 1:
            v = ('%s || %s: the outcome changed after it was observable: %r'
                 % (pair[0], pair[1], seen))
            sig = 'F20:set-not-idempotent'
        elif len(ncb) > 1:
            v = ('%s || %s: result callbacks fired %d times: %r' % (
                pair[0], pair[1], len(ncb), ncb))
            sig = 'F20:set-not-idempotent'
        elif seen and (seen[-1][0] is True or
                       seen[-1][1] != 'TimeLimitExceeded') \
                and kills and 'hard' in pair:
            v = ('%s || %s: the job resolved with its result %r, yet the '
                 'time-limit scanner went on to signal its worker %r (which '
                 'may already run the next job)' % (pair[0], pair[1],
                                                    seen[-1], kills))
            sig = 'F28:scanner-kills-after-losing-the-race'
        elif [x for x in sent_when if x == (int(bp.SIG_SOFT_TIMEOUT), True)]:
            v = ('%s || %s: the soft-limit signal was sent although the '
                 'job\'s result had already been processed (its worker may '
                 'be running another job by now)' % (pair[0], pair[1]))
            sig = 'F29:soft-signal-after-result-processed'
        elif 'hardscan' in pair and 'acc' in order and order[0] != 'acc':
            v = ('%s || %s: the result callback ran before the accept '
                 'callback: %r' % (pair[0], pair[1], order))
        elif not seen and 'hardscan' not in pair:
            # (a scan that ran before the acceptance leaves the job alone)
            v = 'job left unresolved'
        elif seen and incache and job._accepted:
            v = 'resolved and accepted job still cached'
        x = explore.Execution(ch.decisions, outcome=(status, tuple(seen),
                                                     tuple(ncb), incache),
                              violation=v, status=status)
        x.extra['signature'] = sig
        return x
    return run


def explore_pair(arg):
    cfg, bound = arg
    run = make_runner(cfg)
    st = explore.Stats()
    found = {}
    stack = [[]]
    import gc
    gc.disable()
    while stack:
        p = stack.pop()
        x = run(p, None)
        explore._account(st, x, p)
        if st.executions % 50 == 0:
            gc.collect()
        if x.violation:
            st.violations.pop()
            found.setdefault(x.violation[:50], (x.violation, list(x.choices),
                                                x.extra.get('signature')))
            if len(found) > 2:
                break
            continue
        stack.extend(reversed(explore.children(x, len(p), bound)))
    d = st.as_dict()
    d['found'] = list(found.values())
    return d


def configs(tier):
    b = 2 if tier == 'quick' else 3
    out = []
    for pair in (['hard', 'ready'], ['lost', 'ready'], ['hard', 'lost'],
                 ['hard', 'readyfail']):
        out.append((dict(pair=pair, acked=True), b))
    out.append((dict(pair=['softscan', 'ready'], acked=True), b))
    out.append((dict(pair=['putfail', 'ack'], acked=False), b))
    out.append((dict(pair=['ready', 'ack'], acked=False), b))
    # the accept message is processed (result thread) while the scanner
    # (its own thread) finds the hard limit already exceeded
    out.append((dict(pair=['ack', 'hardscan'], acked=False), b))
    return out


def part(rep, tier, only=None, name='thread-level-pairs'):
    from vmc import par
    cfgs = [c for c in configs(tier)
            if only is None or any(o in c[0]['pair'] for o in only)]
    st = explore.Stats()
    for (cfg, b), d in zip(cfgs, par.pmap('harness.c01_threads:explore_pair',
                                          cfgs)):
        found = d.pop('found')
        st.merge(d)
        for msg, ch, sig in found:
            rep.violation(msg, dict(harness='c01-threads', config=cfg,
                                    choices=ch), signature=sig)
    rep.stats(name, st, configs=len(cfgs),
              preemption_bound=cfgs[0][1])


def replay(rp):
    x = make_runner(rp['config'])(rp['choices'])
    print(x.outcome)
    print('violation:', x.violation)
    return 1 if x.violation else 0
