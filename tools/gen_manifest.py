#!/usr/bin/env python3
"""Regenerates /verif/MANIFEST.json from the table below."""
import json
import os

ROOT = os.path.dirname(os.path.dirname(os.path.abspath(__file__)))
BASELINE = ("cd /repo && env -u CELERY_BILLIARD_VERIF /venv/bin/python -m pytest -ra -q "
            "-p no:cacheprovider --timeout=900 --continue-on-collection-errors")

# id -> (category, technique, text, note, design_ref)
CHECKS = {
 'C17': ('model_checking',
         'stateless DFS over all interleavings of semaphore operations (preemption + timer-deviation bounded) of the real synchronize.py over a conformance-checked semaphore model',
         'Every interleaving, at the granularity of single semaphore operations and with timeouts firing at any point, of 2-5 waiters/notifiers/setters within the stated preemption bound is executed on the real Condition/Event/Lock/Semaphore code; oracle = lost/spurious wake-up rules, holder counts, reference counter model, post-quiescence probe.',
         'Trusted: VSemLock model (replayed against the real _multiprocessing.SemLock for all non-blocking histories to depth 4-5), sem_wait blocking semantics, CPython. Bounds: <=3 waiters, <=2 notifiers, preemptions+timer deviations <=2 (3 thorough for <=3 threads).',
         '5/C17'),
}

NOT_YET = {}


def main():
    props = [json.loads(l) for l in open(os.path.join(ROOT, 'properties.jsonl'))]
    checks = []
    na = []
    for p in props:
        pid = p['id']
        if pid in CHECKS:
            cat, tech, text, note, ref = CHECKS[pid]
            checks.append(dict(
                property_id=pid,
                quick_cmd='./check %s --tier quick' % pid,
                thorough_cmd='./check %s --tier thorough' % pid,
                evidence_file='evidence/%s.json' % pid,
                replay_cmd_template='./check %s --replay {path}' % pid,
                engine='vmc',
                level_claimed=dict(category=cat, text=text,
                                   design_ref='DESIGN.md section ' + ref),
                level_note=note, technique=tech))
        else:
            na.append(dict(property_id=pid, reason=NOT_YET.get(
                pid, 'check not built yet in this round (planned: DESIGN.md section 5); not claimed until its harness is committed')))
    man = dict(
        version=1,
        setup_cmd='./tools/setup.sh',
        hooks=dict(guard='CELERY_BILLIARD_VERIF',
                   enable='no in-repo hooks: every seam is substituted from /verif at import time (CELERY_BILLIARD_VERIF=1 is exported by ./check for symmetry only)',
                   baseline_off_cmd=BASELINE, source_commits=[], add_only=True),
        engines=[dict(name='vmc', path='vmc/',
                      serves_properties=sorted(CHECKS),
                      kind_free_text='hand-written stateless/explicit-state explorer executing the real billiard code over a virtual OS (vthreads, virtual semaphores/pipes/processes/clock)')],
        checks=checks, not_applicable=na,
        notes='See DESIGN.md. known_findings.json lists genuine defects (known / fixed).')
    with open(os.path.join(ROOT, 'MANIFEST.json'), 'w') as f:
        json.dump(man, f, indent=1)
        f.write('\n')


if __name__ == '__main__':
    main()
