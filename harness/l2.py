"""L2 -- the pool parent at event level (DESIGN.md section 4).

The real ``billiard.pool.Pool`` (threads=False) on the virtual OS; one BFS
transition = one call of a real entry point with one pending event.  Workers
are *WorkerSpec* automata (the reference behaviour that layer L1 establishes
for the real ``Worker``) executing the real task callables from the real
pickled task tuples.  All messages cross a real pickling boundary.
"""
import collections
import collections.abc
import pickle
import signal
import struct

from vmc import vctx, vos, vproc, vthreading, sched as vs, explore
from vmc.vos import MAIN_PID

vproc.bind()

import billiard.pool as bp                       # noqa: E402
from billiard import exceptions as bexc          # noqa: E402
from billiard.common import human_status         # noqa: E402
from billiard.einfo import ExceptionInfo         # noqa: E402
from harness import tasks                        # noqa: E402

ACK, READY, TASK, NACK, DEATH = bp.ACK, bp.READY, bp.TASK, bp.NACK, bp.DEATH
EPS = 0.001
GUARD = (bp.GUARANTEE_MESSAGE_CONSUMPTION_RETRY_LIMIT *
         bp.GUARANTEE_MESSAGE_CONSUMPTION_RETRY_INTERVAL)


class Violation(Exception):
    def __init__(self, msg, signature=None):
        Exception.__init__(self, msg)
        self.signature = signature


class SpecWorker:
    """Reference automaton of one worker process."""

    def __init__(self, popen, process_obj, vp):
        self.pid = vp.pid
        self.vp = vp
        self.worker = process_obj._target
        self.maxtasks = self.worker.maxtasks
        self.counter = self.worker.on_ready_counter
        self.synq = getattr(self.worker, 'synq', None)
        self.phase = 'idle'        # idle | syn | acked | quota | dead
        self.task = None           # (job, i, fun, args, kwargs)
        self.completed = 0
        self.term = False          # TERM delivered, not yet acted upon
        self.soft = 0              # SIGUSR1 received while in the task
        self.quota_time = None
        self.executed = []         # (job, i)
        self.status = None
        # worker-local trace (conformance, L1)
        self.wtrace = [('synack',)] if self.synq is not None else []

    @property
    def alive(self):
        return self.phase != 'dead'


def _frames(buf):
    """Decode the messages waiting in a pipe buffer."""
    out, data, k = [], bytes(buf.data), 0
    while k + 4 <= len(data):
        n, = struct.unpack('!i', data[k:k + 4])
        if k + 4 + n > len(data):
            break
        try:
            out.append(pickle.loads(data[k + 4:k + 4 + n]))
        except Exception:
            out.append(('?', 'undecodable remainder'))   # torn by a kill
            break
        k += 4 + n
    return out


class _IntIndexSeq(collections.abc.Sequence):
    """A user-defined sequence that supports integer indexes only."""

    def __init__(self, items):
        self._items = list(items)

    def __len__(self):
        return len(self._items)

    def __getitem__(self, i):
        if not isinstance(i, int):
            raise TypeError('indices must be integers')
        return self._items[i]


class SynPool(bp.Pool):
    """What billiard leaves to the embedder when ``synack=True`` (Celery's
    AsynPool does the same): one sync queue per worker process, and
    ``send_ack`` writing the parent's answer to the accepting worker's."""

    def get_process_queues(self):
        return self._inqueue, self._outqueue, self._ctx.SimpleQueue()

    def send_ack(self, response, pid, job, fd):
        env = _l2_env[0]
        env.syn_sent.append((response, pid, job, fd))
        w = env.workers.get(pid)
        if w is not None and w.synq is not None:
            w.synq.put((response, (job,)))


class Env:
    """One history: a fresh real Pool plus spec workers, events applied in
    order.  Everything the oracles need is tracked here in boring data."""

    def __init__(self, cfg):
        self.cfg = cfg
        self.choices = vs.Choices()
        self.sched = vs.Scheduler(self.choices)
        self.world = vos.reset(self.sched)
        self.world.seq_horizon = self.world.now + 5000
        _l2_env[0] = self
        vproc.launcher = self._launch
        vos.deliver_signal = self._signal
        self.workers = collections.OrderedDict()     # pid -> SpecWorker
        self.jobs = []            # per submitted job: dict (truth + handle)
        self.cb = collections.defaultdict(list)
        self.violation = None
        self.signature = None
        self.log = []
        self.soft_sent = collections.Counter()       # job -> SIGUSR1 count
        self.steps_raised = 0
        self.forks = 0
        self.restart_steps = 0
        self.th = None
        self.th_next = None
        self.th_fault = None
        self.closed = False
        self.grown = 0
        self.last_tick = None
        self.outq_times = collections.deque()   # write instants, FIFO
        self.tick_log = []
        self.tick_reaped = []
        self.tick_missing = None
        self.tjob_pids = set()
        pk = dict(cfg.get('pool', {}))
        self.nprocs = cfg.get('procs', 2)
        pk['semaphore'] = vproc.use_scheduler_aware_putlock(
            bp.LaxBoundedSemaphore(self.nprocs))
        self.syn_sent = []           # handshake answers of the parent
        self.pool = (SynPool if pk.get('synack') else bp.Pool)(
            self.nprocs, threads=False, context=vproc.VPoolContext(), **pk)
        rs = self.pool.restart_state
        env = self
        orig_step = rs.step

        def step(now=None):
            env.restart_steps += 1
            try:
                r = orig_step(now)
                env.tick_log.append(('step', True))
                return r
            except bexc.RestartFreqExceeded:
                env.steps_raised += 1
                env.tick_log.append(('step', False))
                raise
        rs.step = step
        if cfg.get('taskqueue', True):
            real_put = self.pool._task_handler.put

            def th_put(task):
                env.th_next = task
                env.sched.point('th.put', None)
                env.th_next = None
                f, env.th_fault = env.th_fault, None
                if f == 'io':
                    raise IOError('injected: pipe closed')
                if f == 'exc':
                    raise ValueError('injected: task cannot be sent')
                with nopoints(env):
                    return real_put(task)
            self.pool._task_handler.put = th_put
            self.th = self.sched.spawn(self.pool._task_handler.body,
                                       'TaskHandler', pid=MAIN_PID,
                                       daemon=True)
            self.sched.step(self.th)
            if self.th.pending is None or self.th.pending.op != 'q.get':
                raise vs.HarnessError('TaskHandler did not reach its queue')
        self.observe()

    # ------------------------------------------------------------ plumbing
    def teardown(self):
        try:
            self.pool._terminate.cancel()
        except Exception:
            pass
        try:
            self.sched.abandon()
        finally:
            _l2_env[0] = None
            vos.deliver_signal = vproc.deliver_signal
            vproc.launcher = None
            vctx.reset_billiard_globals()
            vos.clear()

    def _launch(self, popen, process_obj, vp):
        self.workers[vp.pid] = SpecWorker(popen, process_obj, vp)
        self.forks += 1
        self.tick_log.append(('fork', vp.pid))

    def _signal(self, p, sig):
        sig = int(sig)
        if p.is_main:
            self.world.host_signals.append(sig)
            return
        w = self.workers.get(p.pid)
        if w is None or not w.alive:
            return
        if sig == signal.SIGKILL:
            self._exit(w, -sig, notice=False)
        elif sig == signal.SIGTERM:
            k = self.choices.next(2, 'term-reaction')
            if k == 0:
                self._exit(w, 15, notice=True)     # honours TERM promptly
            else:
                w.term = True                      # lingers
        elif sig == bp.SIG_SOFT_TIMEOUT:
            if w.phase == 'acked':
                w.soft += 1
        # anything else: ignored by the reference worker

    def _outq_put(self, w, msg):
        with vos.as_process(w.pid):
            self.pool._outqueue.put(msg)
        self.outq_times.append(self.world.now)

    def _exit(self, w, status, notice):
        """The worker process ends.  ``notice``: it went through
        Worker._do_exit (exit callback + DEATH message)."""
        if not w.alive:
            return
        if notice:
            raw = status if status in (0, 1, bp.EX_RECYCLE) else -(256 - status)
            self._outq_put(w, (DEATH, (w.pid, raw)))
        if w.phase in ('acked', 'syn'):
            j, i = w.task[0], w.task[1]
            part = self.jobs[j]['parts'].setdefault(i, {})
            part.update(state='lost', pid=w.pid, status=status,
                        lost_at=self.world.now)
        w.phase = 'dead'
        w.status = status
        w.wtrace.append(('exit', status, bool(notice)))
        vos.proc_exit(w.pid, status)

    @property
    def inbuf(self):
        return self.world.fds[self.pool._inqueue._reader.fileno()][0].rbuf

    def synbuf(self, w):
        return self.world.fds[w.synq._reader.fileno()][0].rbuf

    @property
    def outbuf(self):
        return self.world.fds[self.pool._outqueue._reader.fileno()][0].rbuf

    # -------------------------------------------------------------- events
    def enabled_events(self):
        cfg, pool, evs = self.cfg, self.pool, []
        A = cfg.get('alphabet', {})
        nj = len(self.jobs)
        if nj < len(cfg['jobs']) and (pool._state == bp.RUN or
                                      A.get('submit_after_close')):
            if not (cfg.get('pool', {}).get('putlocks') and
                    pool._putlock._value <= 0 and pool._state == bp.RUN):
                evs.append(('submit', nj))
        if self.th is not None and self.th.state == 'parked' and \
                self.th.is_enabled(self.world.now):
            evs.append(('th',))
            if self.th.pending.op == 'th.put':
                for f in A.get('put_faults', ()):
                    # only a task can fail to serialise; a closed pipe can
                    # hit any put
                    if f == 'io' or self.th_next is not None:
                        evs.append(('th', f))
        indata = bool(self.inbuf.data)
        for w in self.workers.values():
            if not w.alive:
                continue
            if w.term:
                # a pending termination signal is handled before the worker
                # executes another bytecode: it makes no other progress
                evs.append(('term_react', w.pid))
                for s_ in A.get('die', ()):
                    evs.append(('die', w.pid, s_))
                continue
            if w.phase == 'idle' and indata:
                evs.append(('run', w.pid) if A.get('atomic_worker')
                           else ('take', w.pid))
            if w.phase == 'syn' and self.synbuf(w).data:
                evs.append(('syn', w.pid))
            if w.phase == 'acked':
                evs.append(('finish', w.pid))
                if w.soft and A.get('soft_raise'):
                    evs.append(('finish', w.pid, 'soft'))
            if w.phase == 'quota':
                if w.counter.value >= w.completed:
                    evs.append(('quota_exit', w.pid))
                elif self.world.now >= w.quota_time + GUARD:
                    evs.append(('guard_exit', w.pid))
            for s in A.get('die', ()):
                if w.phase == 'acked' or (A.get('die_idle') and
                                          w.phase in ('idle', 'quota')):
                    evs.append(('die', w.pid, s))
        if self.outbuf.data:
            evs.append(('deliver',))
        evs.append(('tick',))
        if pool._timeout_handler is not None and A.get('scan', True):
            evs.append(('scan',))
        for k, t in enumerate(self.deadlines()):
            evs.append(('adv', k))
        for j, rec in enumerate(self.jobs):
            if A.get('discard') and rec['kind'] == 'apply' and \
                    not rec['discarded'] and not rec['h'].ready():
                evs.append(('discard', j))
            if A.get('cancel') and rec['kind'] == 'apply' and \
                    not rec.get('cancelled') and not rec['discarded'] and \
                    not rec['h'].ready():
                evs.append(('cancel', j))
            if A.get('terminate_job') and rec['kind'] == 'apply' and \
                    not rec.get('targeted') and not rec['h'].ready() and \
                    rec['h']._accepted and rec['h']._worker_pid in [
                        p.pid for p in self.pool._pool]:
                # the user terminates a job it knows to be running: it
                # aims at the worker the job's accept callback reported
                evs.append(('tjob', j))
            if A.get('next') and rec['kind'] in ('imap', 'imap_unordered') \
                    and not rec.get('exhausted') and 'gen' not in rec:
                evs.append(('next', j))
        if A.get('terminate_worker'):
            # the user terminates whatever job runs on a worker it knows to
            # be busy (terminate_job takes a pid; nothing ties it to apply)
            for p in pool._pool:
                w = self.workers[p.pid]
                if w.alive and w.phase == 'acked' and not w.term and \
                        p.pid not in self.tjob_pids and \
                        not getattr(p, '_controlled_termination', False):
                    evs.append(('tjobw', p.pid))
        if A.get('close') and not self.closed and any(
                w.alive and not w.term and
                not getattr(p, '_controlled_termination', False)
                for p in pool._pool for w in [self.workers[p.pid]]):
            # (closing a pool whose every worker the user has just told to
            # exit leaves nobody to drain it: not a scenario the properties
            # speak about)
            evs.append(('close',))
        if A.get('grow') and self.grown < A['grow'] and pool._state == bp.RUN:
            evs.append(('grow',))
        if A.get('shrink') and not self.closed and pool._processes > 1 \
                and pool._putlock._value > 0:      # else shrink() blocks
            evs.append(('shrink',))
        return evs

    def deadlines(self):
        """Instants worth jumping to: just before / at / just after each
        pending deadline (time limits, lost-worker marks, quota guards)."""
        now = self.world.now
        pts = set()
        A = self.cfg.get('alphabet', {})
        for rec in self.jobs:
            h = rec['h']
            if h is None or h.ready():
                continue
            if rec['kind'] == 'apply' and h._time_accepted:
                for lim in (h._soft_timeout, h._timeout,
                            self.pool.soft_timeout, self.pool.timeout):
                    if lim:
                        pts.add(h._time_accepted + lim)
            wl = getattr(h, '_worker_lost', None)
            if wl:
                pts.add(wl[0] + h._lost_worker_timeout)
        for w in self.workers.values():
            if w.phase == 'quota' and w.counter.value < w.completed:
                pts.add(w.quota_time + GUARD)
        rs = self.pool.restart_state
        if A.get('restart_window') and rs.T:
            pts.add(rs.T + rs.maxT)
        out = []
        for t in sorted(pts):
            for d in (-EPS, 0.0, EPS):
                if t + d > now + 1e-9:
                    out.append(round(t + d, 6))
        out = sorted(set(out))
        if A.get('period'):
            out.append(round(now + A['period'], 6))
        out = sorted(set(out))[:A.get('max_adv', 4)]
        if self.outq_times:
            # fairness assumption (the one billiard's grace period is built
            # on): the parent processes a message less than one lost-worker
            # timeout after it was written
            lim = min([self.pool.lost_worker_timeout] + [
                r['h']._lost_worker_timeout for r in self.jobs
                if r['h'] is not None])
            out = [t for t in out if t - self.outq_times[0] < lim - 1e-9]
        return out

    def apply(self, ev, answers=()):
        """Execute one event on the real code.  Returns the decisions the
        environment was asked while it ran."""
        self.choices = vs.Choices(answers)
        self.sched.choices = self.choices
        self.log.append(ev if not answers else ev + ('ans', tuple(answers)))
        try:
            getattr(self, 'ev_' + ev[0])(*ev[1:])
        except Violation as v:
            self._flag(str(v), v.signature)
        except (vs.HarnessError, vos.WouldBlock, vos.Horizon):
            raise
        except Exception as exc:
            if 'callback failed (propagated)' in str(exc):
                # the user's own callback error, propagated on request
                # (callbacks_propagate) to whoever resolved the job
                self.log.append(('callback-error-propagated', ev[0]))
                self.observe(ev)
                return self.choices.decisions
            if ev[0] not in ('tick', 'scan', 'deliver'):
                raise
            # these run inside pool threads: PoolThread.run turns any
            # exception into os._exit(1) of the host process
            import traceback
            self._flag('%s raised %r -- in a pool thread this is '
                       'os._exit(1) of the host\n%s' % (
                           ev[0], exc, traceback.format_exc()[-1500:]))
        self.observe(ev)
        return self.choices.decisions

    def _flag(self, msg, signature=None):
        if self.violation is None:
            self.violation = msg
            self.signature = signature

    # user ------------------------------------------------------------------
    def ev_submit(self, j):
        t = dict(self.cfg['jobs'][j])
        kind = t['kind']
        fn = getattr(tasks, t.get('fn', 'ok'))
        if t.get('partial') is not None:
            import functools
            fn = functools.partial(fn, t['partial'])
        rec = dict(kind=kind, t=t, parts={}, discarded=False, h=None,
                   first=None, fn=fn, accepted_at=None, lost_seen=None,
                   submitted_state=self.pool._state, acks=[], nexts=[])
        self.jobs.append(rec)
        pool = self.pool
        cb = self.cb

        def mk(tag):
            def f(*a, **kw):
                cb[j].append((tag, self.world.now))
                if t.get('acc_raises') and tag == 'acc':
                    raise ValueError('accept callback failed')
                if t.get('cb_raises') and tag in ('ok', 'err'):
                    raise tasks.CallbackError('callback failed (propagated)')
            return f
        if kind == 'apply':
            arg = tasks.Unsendable() if t.get('unsendable') else t.get('arg', j)
            prev = pool.threads
            if t.get('tq'):
                pool.threads = True
                pool._timeout_handler_started = True
            try:
                h = pool.apply_async(
                    fn, (arg,), callback=mk('ok'), error_callback=mk('err'),
                    accept_callback=mk('acc'), timeout_callback=lambda **kw: (
                        cb[j].append(('to', self.world.now, kw.get('soft'),
                                      kw.get('timeout'))),
                        # an embedder whose timeout callback pumps results
                        t.get('pump_on_timeout') and [
                            self.ev_deliver() for _ in range(4)
                            if self.outbuf.data]),
                    soft_timeout=t.get('soft'), timeout=t.get('hard'),
                    lost_worker_timeout=t.get('lost'),
                    callbacks_propagate=(tasks.CallbackError,) if t.get('cb_raises')
                    else ())
            finally:
                pool.threads = prev
            rec['expect'] = self._seq(fn, arg)
            rec['nparts'] = 1
        elif kind in ('map', 'starmap'):
            items = list(t['items'])
            src = items
            if t.get('container') == 'deque':
                src = collections.deque(items)     # a Sequence, not sliceable
            elif t.get('container') == 'seq':
                src = _IntIndexSeq(items)
            elif t.get('container') == 'gen':
                src = (x for x in items)
            if kind == 'map':
                h = pool.map_async(fn, src, t.get('chunksize'),
                                   callback=mk('ok'), error_callback=mk('err'))
            else:
                h = pool.starmap_async(fn, items, t.get('chunksize'),
                                       callback=mk('ok'),
                                       error_callback=mk('err'))
            rec['expect_items'] = [
                self._seq(fn, *(x if kind == 'starmap' else (x,)))
                for x in items]
            rec['nparts'] = None if h is None else h._number_left
        else:
            items = list(t['items'])
            meth = pool.imap if kind == 'imap' else pool.imap_unordered
            kw = {}
            if t.get('lost'):
                kw['lost_worker_timeout'] = t['lost']
            cs = t.get('chunksize') or 1
            if cs > 1:
                kw['chunksize'] = cs
            src = iter(items)
            if t.get('iter_raise_at') is not None:
                def gen(k=t['iter_raise_at']):
                    for n_, x in enumerate(items):
                        if n_ == k:
                            raise RuntimeError('iterable failed at %d' % k)
                        yield x
                    if k >= len(items):
                        raise RuntimeError('iterable failed at %d' % k)
                src = gen()
                rec['iter_raises'] = True
            h = meth(fn, src, **kw)
            if cs > 1 and h is not None:
                rec['gen'] = h          # a generator over the chunks
                h = pool._cache[j]
            rec['expect_items'] = [self._seq(fn, x) for x in items]
            rec['nparts'] = -(-len(items) // cs)
        rec['h'] = h
        if h is not None and getattr(h, '_job', j) != j:
            raise vs.HarnessError('job numbering drifted: %r != %r'
                                  % (h._job, j))

    @staticmethod
    def _seq(fn, *args):
        try:
            return (True, fn(*args))
        except Exception as exc:
            return (False, (type(exc), exc.args))

    def ev_discard(self, j):
        self.jobs[j]['h'].discard()
        self.jobs[j]['discarded'] = True

    def ev_cancel(self, j):
        # ApplyResult._cancel(): "only works if synack is used"
        self.jobs[j]['h']._cancel()
        self.jobs[j]['cancelled'] = True

    def ev_tjob(self, j):
        rec = self.jobs[j]
        rec['targeted'] = True
        pid = rec['h']._worker_pid
        self.tjob_pids.add(pid)
        for r2 in self.jobs:
            # whatever really runs (or died) unfinished in that process is
            # what the termination hits
            if any(p.get('pid') == pid and p.get('state') in ('taken', 'lost')
                   for p in r2['parts'].values()):
                r2['hit'] = True
        self.pool.terminate_job(pid)

    def ev_tjobw(self, pid):
        self.tjob_pids.add(pid)
        for r2 in self.jobs:
            if any(p.get('pid') == pid and p.get('state') in ('taken', 'lost')
                   for p in r2['parts'].values()):
                r2['hit'] = True
        self.pool.terminate_job(pid)

    def ev_close(self):
        self.pool.close()
        self.closed = True

    def ev_grow(self):
        self.pool.grow(1)
        self.grown += 1

    def ev_shrink(self):
        pool = self.pool
        before = (pool._processes, pool._putlock._value,
                  pool._putlock._initial_value,
                  [p._controlled_termination for p in pool._pool])
        busy = [any(p.pid in r['h'].worker_pids() for r in self.jobs
                    if r['h'] is not None and r['h']._job in pool._cache) or
                getattr(p, '_controlled_termination', False)
                for p in pool._pool]
        try:
            pool.shrink(1)
            if all(busy):
                raise Violation('shrink() succeeded although every worker '
                                'is busy')
        except ValueError:
            self.log.append(('shrink-refused',))
            after = (pool._processes, pool._putlock._value,
                     pool._putlock._initial_value,
                     [p._controlled_termination for p in pool._pool])
            if after != before:
                raise Violation('refused shrink() changed the pool: %r -> %r'
                                % (before, after))
            if not all(busy):
                raise Violation('shrink() refused although a worker is idle')

    def ev_next(self, j):
        rec = self.jobs[j]
        try:
            v = rec['h'].next(timeout=0)
            rec['nexts'].append(('val', v))
        except StopIteration:
            rec['exhausted'] = True
            rec['nexts'].append(('stop',))
        except bexc.TimeoutError:
            # nothing to deliver yet: no observable change
            self.log[-1] = self.log[-1] + ('pending',)
        except Exception as exc:
            a = exc.args[0] if exc.args else None
            rec['nexts'].append(('err', getattr(a, 'type', type(exc))))

    # task handler ------------------------------------------------------------
    def ev_th(self, fault=None):
        self.th_fault = fault
        if fault and self.th_next is not None:
            job, i = self.th_next[1][:2]
            if job < len(self.jobs):
                self.jobs[job]['parts'].setdefault(i, {}).update(
                    state='putfail', fault=fault)
        self.sched.step(self.th)
        guard = 0
        while self.th.state == 'parked' and \
                self.th.pending.op not in ('th.put', 'q.get', 'th.setlen'):
            # locks / conditions taken inside the same logical step
            if not self.th.is_enabled(self.world.now):
                raise Violation('TaskHandler blocked inside a step at %r'
                                % (self.th.pending.op,))
            self.sched.step(self.th)
            guard += 1
            if guard > 1000:
                raise vs.HarnessError('TaskHandler step does not end')
        if self.th.exc is not None:
            raise Violation('TaskHandler thread crashed: %r' % (self.th.exc,))

    # workers -----------------------------------------------------------------
    def ev_take(self, pid):
        w = self.workers[pid]
        with vos.as_process(pid):
            msg = pickle.loads(self.pool._inqueue.get_payload())
        if msg is None:
            # sentinel: SystemExit raised by receive(), not through the
            # worker's exit() wrapper -> _do_exit(None) -> status 0 (L1)
            self._exit(w, 0, notice=True)
            return
        typ, (job, i, fun, args, kwargs) = msg
        w.task = (job, i, fun, args, kwargs)
        w.phase = 'acked' if w.synq is None else 'syn'
        w.soft = 0
        if job < len(self.jobs):
            self.jobs[job]['parts'].setdefault(i, {}).update(
                state='taken', pid=pid, taken_at=self.world.now)
            if self.jobs[job]['kind'] == 'apply':
                self.jobs[job]['acked_at'] = self.world.now
        self._outq_put(w, (ACK, (job, i, self.world.now, pid,
                                 w.synq and w.synq._writer.fileno())))

    def ev_syn(self, pid):
        """The worker reads the parent's answer to its accept message."""
        w = self.workers[pid]
        with vos.as_process(pid):
            typ, _args = pickle.loads(w.synq.get_payload())
        job, i = w.task[:2]
        if typ == NACK:
            # refused: not executed, not counted, next job (L1)
            w.wtrace.append(('refused',))
            if job < len(self.jobs):
                self.jobs[job]['parts'].setdefault(i, {}).update(
                    state='refused', pid=pid)
            w.task = None
            w.phase = 'idle'
        else:
            w.phase = 'acked'

    def ev_run(self, pid):
        self.ev_take(pid)
        if self.workers[pid].phase == 'acked':
            self.ev_finish(pid)

    def ev_finish(self, pid, variant=None):
        w = self.workers[pid]
        job, i, fun, args, kwargs = w.task
        if variant == 'soft':
            try:
                raise bexc.SoftTimeLimitExceeded()
            except bexc.SoftTimeLimitExceeded:
                result = (False, ExceptionInfo())
        else:
            try:
                result = (True, fun(*args, **kwargs))
            except BaseException:          # noqa -- as Worker.workloop does
                result = (False, ExceptionInfo())
        w.executed.append((job, i))
        w.wtrace.append(('task', bool(result[0])))
        if job < len(self.jobs):
            self.jobs[job]['parts'].setdefault(i, {}).update(
                state='done', pid=pid, ok=result[0])
        self._outq_put(w, (READY, (job, i, result, w.worker.inqW_fd)))
        w.completed += 1
        w.task = None
        w.soft = 0
        if w.maxtasks and w.completed >= w.maxtasks:
            w.phase = 'quota'
            w.quota_time = self.world.now
        else:
            w.phase = 'idle'

    def ev_die(self, pid, status):
        self._exit(self.workers[pid], status, notice=False)

    def ev_quota_exit(self, pid):
        self._exit(self.workers[pid], bp.EX_RECYCLE, notice=True)

    def ev_guard_exit(self, pid):
        w = self.workers[pid]
        self.log.append(('guard-expired', pid))
        w.guard_expired = True
        self._exit(w, bp.EX_RECYCLE, notice=True)

    def ev_term_react(self, pid):
        self._exit(self.workers[pid], 15, notice=True)

    # parent ------------------------------------------------------------------
    def ev_deliver(self):
        fr = _frames(self.outbuf)
        self.last_delivered = fr[0] if fr else None
        if self.outq_times:
            self.outq_times.popleft()
        hs = None
        m = self.last_delivered
        if m and m[0] == ACK and m[1][4] is not None and \
                m[1][0] < len(self.jobs):
            rec = self.jobs[m[1][0]]
            hs = (rec, len(self.syn_sent), bool(rec.get('cancelled')),
                  len([c for c in self.cb[m[1][0]] if c[0] == 'acc']))
        try:
            self.pool.handle_result_event()
        except tasks.CallbackError as exc:
            if 'callback failed (propagated)' not in str(exc):
                raise
            # callbacks_propagate: the embedder sees the callback's error
            self.log.append(('callback-error-propagated',))
        if hs is not None:
            self._handshake(m, *hs)

    def _handshake(self, m, rec, n0, cancelled, nacc0):
        """C03, parent half: the accept message of a job is answered once,
        to the worker that sent it; NACK exactly when the job was cancelled
        before this acceptance (the accept callback then does not run) or
        the accept callback failed."""
        job, i, t_acc, pid, fd = m[1]
        if rec['kind'] != 'apply' or rec['discarded']:
            return
        sent = self.syn_sent[n0:]
        nacc = len([c for c in self.cb[job] if c[0] == 'acc']) - nacc0
        refuse = cancelled or bool(rec['t'].get('acc_raises'))
        want = [(NACK if refuse else ACK, pid, job, fd)]
        if sent != want:
            raise Violation(
                'accept message of job %d (cancelled before: %r) from '
                'worker %r was answered %r, expected %r' % (
                    job, cancelled, pid, sent, want))
        if cancelled and nacc:
            raise Violation('accept callback ran for job %d, which was '
                            'cancelled before acceptance' % job)
        if not cancelled and nacc != 1:
            raise Violation('accept callback ran %d times when job %d was '
                            'accepted' % (nacc, job))
        if refuse:
            rec['refused'] = True
        elif rec['h'].worker_pids() != [pid]:
            raise Violation('job %d was accepted by worker %r but the handle '
                            'names %r as its owner' % (
                                job, pid, rec['h'].worker_pids()))

    def ev_tick(self):
        pool = self.pool
        before = self.forks
        self.tick_raised = False
        self.tick_log = []
        self.tick_reaped = [w.status for w in self.workers.values()
                            if not w.alive and w.vp.state == 'zombie' and
                            w.pid in [p.pid for p in pool._pool]]
        self.tick_reaped_ctl = [
            bool(getattr(p, '_controlled_termination', False))
            for p in pool._pool
            if not self.workers[p.pid].alive and
            self.workers[p.pid].vp.state == 'zombie']
        live = len(pool._pool) - len(self.tick_reaped)
        self.tick_missing = pool._processes - live
        if pool._worker_handler._state == bp.RUN and pool._state == bp.RUN:
            try:
                pool._maintain_pool()
            except bexc.RestartFreqExceeded:
                self.tick_raised = True
        elif pool._state == bp.CLOSE:
            # what ResultHandler.finish_at_shutdown does once per round
            # while jobs are still cached
            try:
                pool._join_exited_workers(shutdown=True)
            except bp.WorkersJoined:
                pass
        self.last_tick = self.world.now

    def ev_scan(self):
        k0 = len(self.world.kills)
        self.pool._timeout_handler.handle_event()
        self.scan_kills = self.world.kills[k0:]

    def ev_adv(self, k):
        self.world.now = self.deadlines()[k]

    # -------------------------------------------------- observation / oracle
    def outcome(self, rec):
        """Observable state of a job handle, as a comparable value."""
        h = rec['h']
        if h is None:
            return None
        if rec['kind'] in ('imap', 'imap_unordered'):
            return ('it', h._ready)
        if not h.ready():
            return ('pending',)
        if h._success:
            return ('ok', repr(h._value))
        v = h._value
        return ('err', getattr(v, 'type', type(v)).__name__,
                repr(getattr(getattr(v, 'exception', None), 'exc',
                             getattr(v, 'exception', v)))[:200])

    def observe(self, ev=None):
        w = self.world
        if w.host_exit is not None:
            self._flag('a pool thread crashed the host process: os._exit(%r)'
                       % (w.host_exit,))
        for j, rec in enumerate(self.jobs):
            h = rec['h']
            if h is None:
                continue
            out = self.outcome(rec)
            if rec['kind'] in ('apply', 'map', 'starmap'):
                if rec['first'] is not None and out != rec['first']:
                    self._flag('job %d changed its observable outcome from '
                               '%r to %r (event %r)' % (j, rec['first'], out,
                                                        ev))
                if rec['first'] is None and out != ('pending',):
                    rec['first'] = out
                    rec['resolved_at'] = w.now
                    rec['resolved_by'] = ev
                    self._justify(j, rec, out, ev)
                ncb = [c for c in self.cb[j] if c[0] in ('ok', 'err')]
                if len(ncb) > 1:
                    self._flag('job %d: result callbacks fired %d times: %r'
                               % (j, len(ncb), ncb))
        oracle = self.cfg.get('oracle')
        if oracle is not None and self.violation is None:
            r = oracle(self, ev)
            if r:
                self._flag(*r) if isinstance(r, tuple) else self._flag(r)

    def _justify(self, j, rec, out, ev):
        """An outcome just became observable: it must be one the history
        justifies for *this* job (C01: own outcome, no foreign failure)."""
        h = rec['h']
        parts = rec['parts']
        if rec.get('refused') and not rec['t'].get('acc_raises'):
            self._flag('job %d was cancelled before acceptance and refused '
                       '(never run), yet it resolved as %r (event %r)' % (
                           j, out, ev))
            return
        if out[0] == 'ok':
            if rec['kind'] == 'apply':
                exp = rec['expect']
                if exp[0] is not True or repr(exp[1]) != out[1]:
                    self._flag('job %d resolved with value %s but the task '
                               'gives %r' % (j, out[1], exp))
                elif not any(p.get('state') == 'done' for p in parts.values()):
                    self._flag('job %d resolved with a value nobody '
                               'computed' % j)
            else:
                exp = [e[1] for e in rec['expect_items']]
                if not all(e[0] for e in rec['expect_items']) or \
                        repr(exp) != out[1]:
                    self._flag('map job %d resolved with %s, sequential map '
                               'gives %r' % (j, out[1], rec['expect_items']))
            return
        typ = h._value.type if isinstance(h._value, ExceptionInfo) else None
        einfo = h._value
        text = str(getattr(einfo, 'exception', ''))
        if typ is bexc.WorkerLostError:
            lost = [p for p in parts.values() if p.get('state') == 'lost']
            if not lost:
                fin = [p for p in parts.values() if p.get('state') == 'done']
                sig = None
                if fin and rec['kind'] != 'apply':
                    sig = 'F4:lost-marker-on-finished-part'
                self._flag(
                    'job %d (%s) reported WorkerLostError although no worker '
                    'running an unfinished part of it exited (parts: %r)'
                    % (j, rec['kind'], parts), sig)
                return
            if ('Job: %d.' % j) not in text:
                self._flag('WorkerLostError stored in job %d names another '
                           'job: %s' % (j, text.strip()[-120:]))
            if not any(human_status(p['status']) in text for p in lost):
                self._flag('WorkerLostError of job %d does not name the exit '
                           'status %r: %s' % (
                               j, [p['status'] for p in lost],
                               text.strip()[-160:]))
            rec['lost_reported_at'] = self.world.now
        elif typ is bexc.TimeLimitExceeded:
            lim = rec['t'].get('hard') or self.pool.timeout
            ta = rec.get('acked_at')
            if rec['kind'] != 'apply':
                self._flag('%s job %d was failed by the time-limit scanner'
                           % (rec['kind'], j))
            elif not lim or ta is None or self.world.now < ta + lim - 1e-9:
                self._flag('job %d failed with TimeLimitExceeded before its '
                           'hard limit (limit %r, accepted %r, now %r)' % (
                               j, lim, ta, self.world.now))
            elif (ev or ('?',))[0] != 'scan':
                self._flag('TimeLimitExceeded set outside a scan: %r' % (ev,))
            rec['timed_out_at'] = self.world.now
        elif typ is bexc.Terminated:
            if not rec.get('targeted') and not rec.get('hit'):
                sig = None
                if any(p.get('state') == 'done' and p.get('pid') in
                       self.tjob_pids for p in parts.values()):
                    # it had finished on the terminated process; its result
                    # was still in flight when the process was reaped
                    sig = 'F25:terminated-with-result-in-flight'
                self._flag('job %d failed with Terminated but terminate_job '
                           'was never aimed at it (parts %r)' % (j, parts),
                           sig)
        elif typ is bexc.SoftTimeLimitExceeded:
            if not self.soft_sent.get(j) and not any(
                    k[2] == signal.SIGUSR1 for k in self.world.kills):
                self._flag('job %d failed with SoftTimeLimitExceeded but no '
                           'soft-limit signal was ever sent' % j)
        else:
            # the task's own exception, or a failed send
            pf = [p for p in parts.values() if p.get('state') == 'putfail']
            if rec['kind'] == 'apply':
                exp = rec['expect']
                if rec['t'].get('unsendable') or pf:
                    return
                if exp[0] is not False or exp[1][0] is not typ:
                    self._flag('job %d failed with %r but the task gives %r'
                               % (j, typ, exp))
            else:
                fails = [e[1][0] for e in rec['expect_items'] if not e[0]]
                if rec.get('iter_raises'):
                    fails.append(RuntimeError)
                if typ not in fails and not pf and \
                        not rec['t'].get('unsendable'):
                    self._flag('map job %d failed with %r which none of its '
                               'inputs raises (%r)' % (j, typ, fails))

    # ---------------------------------------------------------------- canon
    def canon(self):
        """Canonical state key.  pids are renamed (pool members by slot,
        others by first appearance), times are relative to now.  Everything
        that can influence a future transition or an oracle is included."""
        now = self.world.now
        names = {}

        def nm(pid):
            if pid is None:
                return None
            if pid not in names:
                names[pid] = 'x%d' % len(names)
            return names[pid]

        def rel(t):
            return None if t is None else round(t - now, 4)
        pool = self.pool
        for p in sorted(pool._pool, key=lambda p: p.index):
            names[p.pid] = 'w%d' % p.index
        P = []
        for p in sorted(pool._pool, key=lambda p: p.index):
            w = self.workers[p.pid]
            P.append((p.index, w.phase, w.task and w.task[:2], w.completed,
                      w.term, w.soft, rel(w.quota_time), w.counter.value,
                      getattr(p, '_controlled_termination', False),
                      getattr(p, '_job_terminated', False),
                      p._popen.returncode,
                      w.synq is not None and tuple(
                          m[0] for m in _frames(self.synbuf(w)))))
        J = []
        for j, rec in enumerate(self.jobs):
            h = rec['h']
            if h is None:
                J.append(None)
                continue
            parts = tuple(sorted(
                (repr(i), p.get('state'), nm(p.get('pid')),
                 p.get('status'))
                for i, p in rec['parts'].items())) + (
                    rec.get('targeted', False), rec.get('hit', False),
                    rec.get('cancelled', False), rec.get('refused', False))
            try:
                if rec['kind'] == 'apply':
                    st = (h._accepted, nm(h._worker_pid),
                          rel(h._time_accepted), h._cancelled, h._terminated)
                elif rec['kind'] in ('map', 'starmap'):
                    st = (tuple(h._accepted),
                          tuple(nm(x) for x in h._worker_pid),
                          h._number_left,
                          tuple(rel(x) for x in h._time_accepted))
                else:
                    st = (h._index, h._length, len(h._items),
                          tuple(sorted(map(repr, h._unsorted))),
                          tuple(sorted((repr(k), nm(v))
                                       for k, v in h._owners.items())),
                          rec.get('exhausted', False), len(rec['nexts']))
            except AttributeError:
                # a private attribute was renamed: describe the handle by
                # everything it holds, whatever it is called
                st = (_generic_canon(h, nm, rel),
                      rec.get('exhausted', False), len(rec['nexts']))
            wl = getattr(h, '_worker_lost', None)
            J.append((self.outcome(rec), st, parts, rec['discarded'],
                      wl and (rel(wl[0]), wl[1]), h._job in pool._cache,
                      tuple(c[0] for c in self.cb[j]),
                      self.soft_sent.get(j, 0), rel(rec.get('acked_at'))))

        def msg(m):
            if m is None:
                return None
            typ, a = m
            if typ == TASK:
                return ('T', a[0], a[1])
            if typ == ACK:
                return ('A', a[0], a[1], rel(a[2]), nm(a[3]))
            if typ == READY:
                return ('R', a[0], a[1], a[2][0])
            return ('D', nm(a[0]), a[1])
        rs = pool.restart_state
        th = None
        if self.th is not None:
            th = (self.th.state, self.th.pending and self.th.pending.op,
                  self.th_next and self.th_next[1][:2],
                  len(pool._taskqueue.queue))
        dirty = ()
        thd = pool._timeout_handler
        if thd is not None:
            # the scan generator's set of jobs already notified, under
            # whatever names the attribute and the local go by
            import types as _types
            for g in vars(thd).values():
                if isinstance(g, _types.GeneratorType) and \
                        g.gi_frame is not None:
                    loc = g.gi_frame.f_locals
                    sets = [v for k, v in sorted(loc.items())
                            if isinstance(v, (set, frozenset))]
                    dirty = tuple(tuple(sorted(map(repr, v))) for v in sets)
                    if 'dirty' in loc:
                        dirty = tuple(sorted(loc['dirty']))
        pl = pool._putlock
        dead = tuple(sorted((names.get(w.pid, 'gone'), w.vp.state, w.status)
                            for w in self.workers.values()
                            if w.pid in names and not w.alive))
        return (tuple(P), tuple(J), tuple(msg(m) for m in _frames(self.inbuf)),
                tuple(msg(m) for m in _frames(self.outbuf)),
                pool._state, pool._processes, len(pool._pool),
                (rs.R, rel(rs.T)), (pl._value, pl._initial_value), th, dirty,
                dead, self.closed, self.grown, len(self.jobs),
                rel(self.outq_times[0]) if self.outq_times else None)

    # --------------------------------------------------------------- settle
    # (see _generic_canon below the class for the name-independent fallback)

    def settle(self, rounds=140):
        """Deterministic closure: let everything that can still happen,
        happen (no new faults), then let the lost-worker timeouts pass."""
        idle_rounds = 0
        for _ in range(rounds):
            did = False
            while self.th is not None and self.th.state == 'parked' and \
                    self.th.is_enabled(self.world.now):
                self.apply(('th',))
                did = True
            for w in list(self.workers.values()):
                if not w.alive:
                    continue
                if w.term:
                    self.apply(('term_react', w.pid))
                    did = True
                    continue
                if w.phase == 'syn' and self.synbuf(w).data:
                    self.apply(('syn', w.pid))
                    did = True
                if w.phase == 'acked':
                    self.apply(('finish', w.pid))
                    did = True
                if w.phase == 'idle' and self.inbuf.data:
                    self.apply(('take', w.pid))
                    did = True
                if w.phase == 'quota' and w.counter.value >= w.completed:
                    self.apply(('quota_exit', w.pid))
                    did = True
                elif w.phase == 'quota' and \
                        self.world.now >= w.quota_time + GUARD:
                    self.apply(('guard_exit', w.pid))
                    did = True
            while self.outbuf.data:
                self.apply(('deliver',))
                did = True
            before = (self.forks, tuple(self.outcome(r) for r in self.jobs),
                      len(self.pool._pool))
            self.apply(('tick',))
            if self.pool._timeout_handler is not None:
                self.apply(('scan',))
            after = (self.forks, tuple(self.outcome(r) for r in self.jobs),
                     len(self.pool._pool))
            did = did or before != after
            if self.violation:
                return
            if did:
                idle_rounds = 0
                continue
            # nothing can move at this instant: let virtual time pass the way
            # it does under a running supervisor -- one supervision period
            # (0.8 s) per round, NOT a jump to the next deadline (a mark that
            # is re-stamped on every round must not be able to hide)
            pending = bool(self.unresolved()) or any(
                w.alive and w.phase == 'quota' for w in self.workers.values())
            idle_rounds += 1
            if not pending or idle_rounds > 55:
                return
            self.world.now += 0.8
            self.log.append(('settle-advance', round(self.world.now, 3)))

    def unresolved(self):
        out = []
        for j, rec in enumerate(self.jobs):
            h = rec['h']
            if h is None or rec['discarded'] or rec.get('refused'):
                continue
            if rec['kind'] in ('imap', 'imap_unordered'):
                if not h._ready:
                    out.append(j)
            elif not h.ready():
                out.append(j)
        return out


_orig_set_length = bp.IMapIterator._set_length


_l2_env = [None]


def _set_length_with_point(self, length):
    vt = vs.current()
    if vt is not None and _l2_env[0] is not None and \
            vt is _l2_env[0].th:
        vt.sched.point('th.setlen', None)
        with nopoints(None):
            return _orig_set_length(self, length)
    return _orig_set_length(self, length)


bp.IMapIterator._set_length = _set_length_with_point


class nopoints:
    """Inside the TaskHandler vthread: run a real call without parking at the
    virtual-OS points inside it (the event is one atomic parent step)."""

    def __init__(self, env):
        self.env = env

    def __enter__(self):
        vt = vs.current()
        self.vt = vt
        if vt is not None:
            vs._tls.vt = None
            self.saved = (vos._world.seq_pid, vos._world.seq_tid)
            vos._world.seq_tid = ('vt', vt.tid)

    def __exit__(self, *a):
        if self.vt is not None:
            vos._world.seq_pid, vos._world.seq_tid = self.saved
            vs._tls.vt = self.vt


# ------------------------------------------------------------------ explorer
def build(cfg, hist):
    env = Env(cfg)
    for ev, ans in hist:
        env.apply(ev, ans)
    return env


def explore_config(cfg):
    """Replay-based BFS over event histories with canonical de-duplication.
    ``cfg['depth']``, ``cfg['max_states']``; ``cfg['final']`` = optional
    f(env) -> violation evaluated after the settle suffix of every state."""
    depth = cfg.get('depth', 8)
    max_states = cfg.get('max_states')
    res = dict(states=0, transitions=0, max_depth=0, violations=[],
               outcomes=collections.Counter(), capped=False, samples=[],
               events=collections.Counter(), settled=0, wtraces=set())
    env = build(cfg, [])
    seen = {env.canon()}
    env.teardown()
    front = collections.deque([[]])
    final = cfg.get('final')

    def report(hist, env):
        res['violations'].append(dict(history=hist, message=env.violation,
                                      signature=env.signature))

    stop = cfg.get('stop_on_violation', True)
    import time as _rt
    t_end = _rt.time() + cfg['budget_s'] if cfg.get('budget_s') else None
    while front:
        if t_end is not None and _rt.time() > t_end:
            res['capped'] = True          # reported, never silently ignored
            res['budget_hit'] = cfg['budget_s']
            break
        hist = front.popleft()
        res['max_depth'] = max(res['max_depth'], len(hist))
        if len(hist) >= depth:
            continue
        env = build(cfg, hist)
        evs = env.enabled_events()
        env.teardown()
        for ev in evs:
            variants = [()]
            while variants:
                ans = variants.pop()
                env = build(cfg, hist)
                try:
                    decs = env.apply(ev, ans)
                    res['transitions'] += 1
                    res['events'][ev[0]] += 1
                    h2 = hist + [(ev, tuple(d.chosen for d in decs))]
                    for i in range(len(ans), len(decs)):
                        for alt in range(1, decs[i].n):
                            variants.append(
                                tuple(d.chosen for d in decs[:i]) + (alt,))
                    if env.violation:
                        report(h2, env)
                        if stop and not env.signature:
                            return _done(res, seen)
                        continue
                    key = env.canon()
                    if key in seen:
                        continue
                    if max_states and len(seen) >= max_states:
                        res['capped'] = True
                        continue
                    seen.add(key)
                    front.append(h2)
                    if len(res['samples']) < 3 and len(h2) >= min(depth, 5):
                        res['samples'].append([list(e) + list(a)
                                               for e, a in h2])
                    # liveness / quiescence part: settle suffix on this env
                    env.settle()
                    res['settled'] += 1
                    if env.violation is None and final is not None:
                        r = final(env)
                        if r:
                            env._flag(*r) if isinstance(r, tuple) \
                                else env._flag(r)
                    res['outcomes'][repr(tuple(
                        env.outcome(r) for r in env.jobs))[:300]] += 1
                    for w_ in env.workers.values():
                        res['wtraces'].add((w_.maxtasks, tuple(w_.wtrace)))
                    if env.violation:
                        report(h2 + [(('settle',), ())], env)
                        if stop and not env.signature:
                            return _done(res, seen)
                finally:
                    env.teardown()
    return _done(res, seen)


def _done(res, seen):
    res['states'] = len(seen)
    res['wtraces'] = sorted(res['wtraces'], key=repr)
    res['outcomes'] = dict(res['outcomes'])
    res['events'] = dict(res['events'])
    return res


def replay_history(cfg, hist, verbose=True):
    env = Env(cfg)
    try:
        for item in hist:
            ev, ans = item if (len(item) == 2 and isinstance(
                item[0], (list, tuple)) and item[0] and isinstance(
                    item[0][0], str)) else (item, ())
            ev = tuple(ev)
            if ev[0] == 'settle':
                env.settle()
                final = cfg.get('final')
                if env.violation is None and final is not None:
                    r = final(env)
                    if r:
                        env._flag(*r) if isinstance(r, tuple) else env._flag(r)
            else:
                env.apply(ev, tuple(ans))
            if verbose:
                print(ev, tuple(ans), '->',
                      [env.outcome(r) for r in env.jobs],
                      'pool=%s' % [(p.index, p.pid) for p in env.pool._pool])
            if env.violation:
                break
        if verbose:
            for l in env.log:
                print('   ', l)
            print('violation:', env.violation)
        return env.violation, env.signature
    finally:
        env.teardown()



def _generic_canon(obj, nm, rel, depth=0):
    """Name-independent description of a result handle: every attribute,
    with worker pids replaced by pool-slot names and absolute times made
    relative; callables, locks and back references reduced to their type."""
    import collections as _c

    def val(v, d):
        if v is None or isinstance(v, (bool, str, bytes)):
            return v
        if isinstance(v, int):
            return nm(v) if 100 <= v < 1000000 else v
        if isinstance(v, float):
            return rel(v) if v >= 1000.0 else v
        if d > 4:
            return type(v).__name__
        if isinstance(v, (tuple, list, _c.deque)):
            return tuple(val(x, d + 1) for x in v)
        if isinstance(v, (set, frozenset)):
            return tuple(sorted((val(x, d + 1) for x in v), key=repr))
        if isinstance(v, dict):
            if len(v) > 50:
                return ('dict', len(v))
            return tuple(sorted(((repr(k), val(x, d + 1))
                                 for k, x in v.items()), key=repr))
        return type(v).__name__
    out = []
    for k in sorted(vars(obj)):
        v = vars(obj)[k]
        if k in ('_cache', '_job') or callable(v):
            continue
        out.append((k, val(v, depth + 1)))
    return tuple(out)
