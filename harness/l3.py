"""L3 -- the whole pool on the virtual OS (DESIGN.md section 4).

Real ``Pool(threads=True)``: its Supervisor / TaskHandler / ResultHandler /
TimeoutHandler bodies run as vthreads, its queues are the real SimpleQueues
over virtual pipes and semaphores, its workers are virtual processes running
the real ``Worker`` on a pickled copy, signals run the real handlers.  The
user program is one more vthread; every interleaving within the preemption
bound is executed (explore.dfs)."""
import signal

from vmc import vctx, vos, vproc, vthreading, sched as vs, explore
from vmc.vos import MAIN_PID

vproc.bind()

import billiard.pool as bp                        # noqa: E402
from billiard import exceptions as bexc           # noqa: E402
from harness import tasks                         # noqa: E402

FN = {'ok': tasks.ok, 'boom': tasks.boom, 'work': tasks.work,
      'sleepy': tasks.sleepy, 'tenfold': tasks.tenfold,
      'inexc': tasks.work_in_except, 'sleepy_catch': tasks.sleepy_catch}


def child_launcher(popen, process_obj, p):
    vproc.run_child(popen, process_obj, p)
    p.main_vt.daemon = True


class Scenario:

    def __init__(self, cfg, prefix):
        self.cfg = cfg
        self.choices = vs.Choices(prefix)
        self.sched = vs.Scheduler(
            self.choices, horizon=1000.0 + cfg.get('horizon', 80.0),
            timer_deviation=cfg.get('timer_deviation', False),
            max_steps=cfg.get('max_steps', 60000),
            delay_model=cfg.get('delay_model', True),
            rr=cfg.get('rr', False))
        self.sched.intr_handler = vproc.run_pending_signals
        if cfg.get('optrace'):
            self.sched.optrace = []
        self.log = []
        self.res = {}

    def ev(self, *a):
        self.log.append((round(self.sched.now - 1000.0, 3),) + a)

    # ---------------------------------------------------------------- user
    def user(self):
        cfg = self.cfg
        res = self.res
        pk = dict(cfg.get('pool', {}))
        if cfg.get('slow_process_up'):
            # an embedder's on_process_up callback that takes a while (it
            # registers the new worker's descriptors with an event loop, say)
            def on_process_up(w, d=float(cfg['slow_process_up'])):
                import time
                time.sleep(d)
            pk['on_process_up'] = on_process_up
        del tasks.EXIT_CB[:]
        if cfg.get('slow_process_exit'):
            pk['on_process_exit'] = tasks.slow_exit_cb
        pool = bp.Pool(cfg.get('procs', 2), context=vproc.VPoolContext(),
                       threads=cfg.get('threads', True), **pk)
        self.pool = pool
        handles = []
        res['handles'] = handles
        if cfg.get('second'):
            # a second user thread offering a job at any moment
            def second():
                res['second_called_after_close_began'] = bool(
                    res.get('close_began'))
                res['second_handle'] = pool.apply_async(tasks.ok, (77,))
                res['second_state'] = pool._state
                return 'second-done'
            self.sched.spawn(second, 'user2', pid=MAIN_PID)
        for step in cfg['script']:
            op, _, arg = step.partition(':')
            self.ev('user', step)
            if op == 'submit':
                kind, fn, a = cfg['jobs'][int(arg)]
                f = FN[fn]
                if kind == 'apply':
                    h = pool.apply_async(f, (a,))
                elif kind == 'map':
                    h = pool.map_async(f, a, 1)
                elif kind == 'imap':
                    h = pool.imap(f, a)
                handles.append((kind, fn, a, h))
            elif op == 'wait':
                k, fn, a, h = handles[int(arg)]
                if k == 'imap':
                    res.setdefault('imap_vals', {})[int(arg)] = list(h)
                else:
                    h.wait()
            elif op == 'sleep':
                import time
                time.sleep(float(arg))
            elif op == 'pump':
                # an embedder without helper threads drives the handlers
                import time
                for _ in range(int(arg or 5)):
                    while pool._outqueue._reader.poll(0):
                        pool.handle_result_event()
                    pool.maintain_pool()
                    time.sleep(0.2)
            elif op == 'close':
                res['close_began'] = True
                pool.close()
            elif op == 'join':
                t0 = self.sched.now
                pool.join()
                res['join_time'] = self.sched.now - t0
                self.snapshot('after_join')
            elif op == 'late_submit':
                res['late'] = pool.apply_async(tasks.ok, (99,))
            elif op == 'terminate':
                before = [(h.ready(), h._success if h.ready() else None,
                           repr(h._value) if h.ready() else None)
                          for k, _, _, h in handles if k != 'imap']
                t0 = self.sched.now
                pool.terminate()
                res.setdefault('terminate_times', []).append(
                    self.sched.now - t0)
                after = [(h.ready(), h._success if h.ready() else None,
                          repr(h._value) if h.ready() else None)
                         for k, _, _, h in handles if k != 'imap']
                res.setdefault('term_before_after', []).append((before, after))
                self.snapshot('after_terminate')
            elif op == 'grow':
                pool.grow(int(arg or 1))
            elif op == 'shrink':
                try:
                    pool.shrink(int(arg or 1))
                except ValueError:
                    res['shrink_refused'] = True
            elif op == 'killworker':
                # an operator's termination signal to one worker
                import os
                os.kill(pool._pool[int(arg or 0)].pid, signal.SIGTERM)
            elif op == 'tjob_soft':
                k, fn, a, h = handles[int(arg)]
                if h._worker_pid:
                    pool.terminate_job(h._worker_pid, signal.SIGUSR1)
            elif op == 'rounds':
                # wait until supervision has completed N more full rounds
                # (virtual time alone proves nothing: a thread can be starved)
                import time
                if 'rounds' not in res:
                    res['rounds'] = [0]
                    orig_mp = pool._maintain_pool

                    def counted():
                        r_ = orig_mp()
                        res['rounds'][0] += 1
                        return r_
                    pool._maintain_pool = counted
                # first let every worker that was told to exit really exit
                # (a starved process proves nothing either)
                w_ = vos.world()
                for _ in range(300):
                    if not [1 for (_s, pid_, sig_) in w_.kills
                            if sig_ == int(signal.SIGTERM) and
                            pid_ in w_.procs and
                            w_.procs[pid_].state == 'running']:
                        break
                    time.sleep(0.1)
                target = res['rounds'][0] + int(arg or 2)
                for _ in range(200):
                    if res['rounds'][0] >= target:
                        break
                    time.sleep(0.1)
            elif op == 'size':
                # after supervision had time to act: live workers vs size
                w_ = vos.world()
                res['size_check'] = (
                    pool._processes,
                    sorted(p.pid for p in pool._pool
                           if w_.procs[p.pid].state == 'running'),
                    sorted(pid for pid, p in w_.procs.items()
                           if not p.is_main and p.state == 'running'))
            elif op == 'tjob':
                k, fn, a, h = handles[int(arg)]
                pid = h._worker_pid
                res['tjob_pid'] = pid
                if pid:
                    pool.terminate_job(pid)
            elif op == 'drop':
                # let the pool be collected: its finaliser must do the job
                fin = pool._terminate
                del pool
                self.pool = None
                fin()
                self.snapshot('after_terminate')
            else:
                raise vs.HarnessError('unknown step %r' % step)
        return 'user-done'

    def _supervisor_grace(self, sched):
        """terminate() does not join the supervisor thread, which sleeps up
        to one supervision period (0.8 s): 'promptly' is read as: it ends at
        its next wake-up without doing any more supervision."""
        pool = getattr(self, 'pool', None)
        snap = self.res.get('after_terminate')
        if pool is None or snap is None or sched.status != 'done':
            return
        vt = getattr(pool._worker_handler, '_vt', None)
        if vt is None or vt.state == 'done':
            return
        calls = []
        orig = pool._maintain_pool
        pool._maintain_pool = lambda: (calls.append(sched.now), orig())[1]
        t_end = sched.now + 1.0
        vt.daemon = False
        saved = sched.choices
        sched.choices = vs.Choices()
        try:
            sched.run(until=lambda: sched.now > t_end)
        finally:
            sched.choices = saved
            vt.daemon = True
        w = vos.world()
        self.res['supervisor_late'] = dict(
            done=vt.state == 'done', maintained=len(calls),
            alive_after={pid: p.state for pid, p in w.procs.items()
                         if not p.is_main and p.state == 'running'})

    def snapshot(self, tag):
        w = vos.world()
        pool = self.pool
        snap = dict(
            procs={pid: (p.state, p.status) for pid, p in w.procs.items()
                   if not p.is_main},
            now=self.sched.now)
        if pool is not None:
            snap['threads'] = {
                name: (getattr(t, '_vt', None) is not None and
                       t._vt.state != 'done')
                for name, t in (('supervisor', pool._worker_handler),
                                ('tasks', pool._task_handler),
                                ('results', pool._result_handler),
                                ('timeouts', pool._timeout_handler))
                if t is not None}
        self.res[tag] = snap

    # ----------------------------------------------------------------- run
    def run(self):
        sched = self.sched
        del tasks.INVOKED[:]
        with vos.fresh(sched) as world:
            vproc.launcher = child_launcher
            vos.deliver_signal = vproc.deliver_signal
            try:
                u = sched.spawn(self.user, 'user', pid=MAIN_PID)
                u.local['is_main'] = True
                lp = self.cfg.get('linepoints')
                if lp:
                    # plain attributes shared between the user thread and the
                    # pool's threads (e.g. Pool._processes): every line of
                    # the named Pool methods is a scheduling point
                    from vmc import linepoints
                    linepoints.enable(linepoints.codes_of(
                        *[getattr(bp.Pool, n) for n in lp]))
                    sched.linepoints = True
                try:
                    sched.run()
                finally:
                    if lp:
                        sched.linepoints = False
                        linepoints.disable()
                self.res['status'] = sched.status
                self._supervisor_grace(sched)
                self.res['user'] = (u.state, u.result, repr(u.exc)
                                    if u.exc else None,
                                    u.pending and u.pending.op)
                self.res['now'] = sched.now
                self.res['host_exit'] = world.host_exit
                self.res['describe'] = sched.describe()
                self.res['errors'] = [
                    (t.name, repr(t.exc)) for t in sched.threads
                    if t.exc is not None and t is not u]
                self.res['kills'] = list(world.kills)
                self.res['exit_cb'] = list(tasks.EXIT_CB)
                self.res['sig_after_acquire'] = list(world.sig_after_acquire)
                self.res['invoked'] = list(tasks.INVOKED)
                v = self.cfg['oracle'](self)
                pool = getattr(self, 'pool', None)
                if pool is not None:
                    try:
                        pool._terminate.cancel()
                    except Exception:
                        pass
            finally:
                vproc.launcher = None
                vctx.reset_billiard_globals()
        sig = None
        if isinstance(v, tuple):
            v, sig = v
        out = self.cfg.get('outcome', default_outcome)(self)
        x = explore.Execution(self.choices.decisions, outcome=out,
                              violation=v, log=self.log,
                              status=self.res.get('status'))
        x.extra['signature'] = sig
        return x


def default_outcome(sc):
    r = sc.res
    hs = []
    for k, fn, a, h in r.get('handles', []):
        if k == 'imap':
            hs.append(('imap', h._ready))
        elif h.ready():
            hs.append((h._success, repr(h._value)[:60] if h._success
                       else getattr(h._value, 'type', type(h._value)).__name__))
        else:
            hs.append('pending')
    return (r.get('status'), tuple(hs), round(r.get('join_time', -1), 1),
            tuple(round(t, 1) for t in r.get('terminate_times', ())))


def stuck_signature(sc):
    """Classify a hang by its root cause if it is a listed finding: a
    termination handler ran inside SemLock.__enter__ (the lock just taken is
    never released, F15) and somebody is now parked on a semaphore."""
    r = sc.res
    if r.get('sig_after_acquire') and any(
            'parked sem.acquire' in d for d in r.get('describe', ())):
        return 'F15:signal-inside-lock-enter'
    return None


# ------------------------------------------------------------------ oracles
def expected(fn, a):
    try:
        return (True, FN[fn](a))
    except Exception as exc:
        return (False, type(exc))


def c07_oracle(sc):
    r = sc.res
    if r['host_exit'] is not None:
        return 'a pool thread crashed the host: os._exit(%r)' % r['host_exit']
    if r['errors']:
        return 'exception in a pool/worker thread: %r' % (r['errors'],)
    if r['status'] != 'done' or r['user'][0] != 'done':
        return ('close()+join() did not return: %s, user at %r; threads: %r; '
                'handlers run inside a lock\'s __enter__: %r'
                % (r['status'], r['user'][3], r['describe'],
                   r['sig_after_acquire']), stuck_signature(sc))
    if r['user'][2]:
        return 'user program raised %s' % r['user'][2]
    snap = r.get('after_join')
    if snap is None:
        return None
    quota = sc.cfg.get('pool', {}).get('maxtasksperchild')
    f18 = 'F18:no-replacement-after-close' if quota else None
    for idx, (k, fn, a, h) in enumerate(r['handles']):
        if k == 'apply':
            if not h.ready():
                return ('job %d submitted before close() is unresolved after '
                        'join()%s' % (idx, ' (workers recycled after close() '
                                      'are not replaced)' if quota else ''),
                        f18)
            lim = sc.cfg.get('pool', {}).get('timeout')
            if fn == 'sleepy' and lim and a > lim:
                if h._success or h._value.type.__name__ != 'TimeLimitExceeded':
                    return ('job %d overran its hard limit during the drain '
                            'but resolved as %r' % (idx, (h._success,
                                                         h._value)))
                continue
            exp = expected(fn, a)
            if exp[0] != h._success or (exp[0] and exp[1] != h._value):
                return 'job %d resolved as %r, expected %r' % (
                    idx, (h._success, h._value), exp)
        elif k == 'map':
            if not h.ready():
                return ('map job %d unresolved after join()' % idx, f18)
            each = [expected(fn, x) for x in a]
            if not all(e[0] for e in each):
                # a failed map reports an error raised by one of its inputs
                if h._success or h._value.type not in [
                        e[1] for e in each if not e[0]]:
                    return ('map job %d with failing inputs resolved as %r'
                            % (idx, (h._success, h._value)))
            else:
                exp = [e[1] for e in each]
                if not h._success or h._value != exp:
                    return 'map job %d resolved as %r, expected %r' % (
                        idx, h._value, exp)
        else:
            vals = r.get('imap_vals', {}).get(idx)
            if vals is None:
                if not h._ready and h._index != h._length:
                    return ('imap job %d incomplete after join()' % idx, f18)
            elif vals != [FN[fn](x) for x in a]:
                return 'imap job %d yielded %r' % (idx, vals)
    alive = {pid: st for pid, st in snap['procs'].items()
             if st[0] != 'reaped'}
    if alive:
        return ('join() returned but worker processes are not exited and '
                'reaped: %r' % (alive,))
    running = [n for n, a in snap['threads'].items()
               if a and n != 'timeouts']
    if running:
        return 'join() returned but pool threads still run: %r' % (running,)
    if r['join_time'] >= 29.0:
        sig = None
        if any(k == 'map' and h.ready() and not h._success
               for k, fn, a, h in r['handles']):
            # results of the remaining parts of a failed map find no cache
            # entry; on_ready returns before crediting their senders
            sig = 'F39:results-of-a-failed-map-are-not-credited'
        return ('join() took %.1f virtual seconds: a worker waited out its '
                'result-consumption guard' % r['join_time'], sig)
    if 'late' in r and r['late'] is not None:
        return 'a job offered after close() was accepted'
    h2 = r.get('second_handle')
    if h2 is not None and not h2.ready():
        sig = None
        if not r.get('second_called_after_close_began'):
            # apply_async had passed its state check before close() began
            # and queued its task behind close()'s sentinel (F27)
            sig = 'F27:submit-races-close'
        return ('a job accepted from a second thread %s is unresolved after '
                'join()' % ('although close() had already begun'
                            if sig is None else
                            'whose apply_async overlapped close()'), sig)
    return None


def c08_oracle(sc):
    r = sc.res
    if r['host_exit'] is not None:
        return 'a pool thread crashed the host: os._exit(%r)' % r['host_exit']
    if r['errors']:
        return 'exception in a pool/worker thread: %r' % (r['errors'],)
    if r['status'] != 'done' or r['user'][0] != 'done':
        # a worker's termination handler ran inside SemLock.__enter__:
        # the lock it had just taken is never released (F15)
        sig = stuck_signature(sc)
        return ('terminate() did not return: %s (virtual time %.1f), user at '
                '%r; threads: %r; handlers run inside a lock\'s __enter__: %r'
                % (r['status'], r['now'] - 1000.0, r['user'][3],
                   r['describe'], r['sig_after_acquire']), sig)
    if r['user'][2]:
        return 'user program raised %s' % r['user'][2]
    for t in r.get('terminate_times', ()):
        if t > 12.0:
            return 'terminate() took %.1f virtual seconds' % t
    snap = r.get('after_terminate')
    if snap is not None:
        alive = {pid: st for pid, st in snap['procs'].items()
                 if st[0] == 'running'}
        if alive:
            return ('terminate() returned but worker processes are alive: %r'
                    % (alive,))
        running = [n for n, a in snap.get('threads', {}).items() if a]
        if running:
            return ('terminate() returned but pool threads still run: %r'
                    % (running,))
        late = r.get('supervisor_late')
        if late and late.get('alive_after'):
            return ('a worker process is alive one second after terminate() '
                    'returned (started by the supervisor afterwards?): %r'
                    % (late['alive_after'],))
        if late and (not late['done'] or late['maintained']):
            return ('the supervisor thread outlived terminate() by more than '
                    'one period or kept supervising: %r' % (late,))
    for before, after in r.get('term_before_after', ()):
        for b, a in zip(before, after):
            if b[0] and a != b:
                return ('a result delivered before terminate() changed: %r '
                        '-> %r' % (b, a))
    if sc.cfg.get('slow_process_exit'):
        # one termination signal per worker in these scenarios: the exit
        # callback it starts runs to its end
        cb = r.get('exit_cb', ())
        cut = sorted(set(p for k, p in cb if k == 'begin') -
                     set(p for k, p in cb if k == 'end'))
        if cut:
            return ('worker(s) %r started the exit callback but did not live '
                    'to finish it (signals sent: %r)' % (cut, r['kills']))
        if not cb:
            return 'no exit callback ran although a worker was terminated'
    return None


def make_runner(cfg):
    cfg = dict(cfg)
    if isinstance(cfg['oracle'], str):
        if ':' in cfg['oracle']:
            import importlib
            mod, _, fn = cfg['oracle'].partition(':')
            cfg['oracle'] = getattr(importlib.import_module(mod), fn)
        else:
            cfg['oracle'] = {'c07': c07_oracle,
                             'c08': c08_oracle}[cfg['oracle']]

    def run(prefix, expect=None):
        return Scenario(cfg, prefix).run()
    return run


def explore_cfg(arg):
    """(cfg, bound, cap[, opts]); opts: ``frontier=N`` -- expand breadth
    first until N unexplored subtree roots exist and return them under
    'roots'; ``root=prefix`` -- explore only the subtree below ``prefix``."""
    cfg, bound, cap = arg[:3]
    opts = arg[3] if len(arg) > 3 else {}
    from harness import l1
    import gc
    import collections
    l1._no_final_gc()
    # Cyclic GC at an arbitrary allocation would run Connection.__del__ (a
    # virtual close = a scheduling point) at a moment that is not a function
    # of the choice sequence: collect only between executions.
    gc.disable()
    run = make_runner(cfg)
    st = explore.Stats()
    found = {}
    want = opts.get('frontier')
    stack = collections.deque([list(opts.get('root', []))])
    import time as _rt
    t_end = _rt.time() + cfg.get('budget_s', 900)
    if opts.get('deadline'):
        t_end = min(t_end, opts['deadline'])
    while stack:
        if want and len(stack) >= want:
            break
        if (cap and st.executions >= cap) or _rt.time() > t_end:
            st.capped = True
            break
        p = stack.popleft() if want else stack.pop()
        x = run(p, None)
        explore._account(st, x, p)
        if st.executions % 25 == 0:
            vproc.safe_collect()  # arena mmaps of finished executions
        if x.violation:
            st.violations.pop()
            found.setdefault((x.violation.split(':')[0][:60],
                              x.extra.get('signature')),
                             (x.violation, list(x.choices),
                              x.extra.get('signature'), x.log[-25:]))
            if len([k for k in found if not k[1]]) > 2:
                break
            if not (x.extra.get('signature') and cfg.get('expand_known')):
                continue
            # a known finding on this schedule: the schedules below it are
            # explored all the same (another violation must not hide)
        kids = explore.children(x, len(p), bound)
        stack.extend(kids if want else reversed(kids))
    d = st.as_dict()
    d['found'] = list(found.values())
    if want:
        d['roots'] = [] if any(not f[2] for f in d['found']) else list(stack)
    return d


def explore_split(cfgs, want=40, wall_s=None):
    """Each (cfg, bound, cap) explored over the whole par pool: the first
    levels breadth first in one worker, the subtrees below in all of them.
    Same coverage as explore_cfg, one merged dict per config.  ``wall_s``:
    wall-clock budget for the whole call (whatever is unexplored then is
    reported as capped)."""
    from vmc import par
    import time as _rt
    dl = _rt.time() + wall_s if wall_s else None
    heads = par.pmap('harness.l3:explore_cfg',
                     [(c, b, cap, {'frontier': want, 'deadline': dl})
                      for c, b, cap in cfgs])
    jobs, owner = [], []
    for i, ((c, b, cap), h) in enumerate(zip(cfgs, heads)):
        roots = h.pop('roots')
        # subtrees are uneven: each may use up to 3x its even share
        per = max(200, 3 * cap // max(1, len(roots))) if cap else cap
        for r in roots:
            jobs.append((c, b, per, {'root': r, 'deadline': dl}))
            owner.append(i)
    # interleave the configs so that a wall-clock cap is spread over all
    seen_, rank = {}, []
    for o in owner:
        rank.append(seen_.get(o, 0))
        seen_[o] = rank[-1] + 1
    order = sorted(range(len(jobs)), key=lambda k: (rank[k], owner[k]))
    jobs = [jobs[k] for k in order]
    owner = [owner[k] for k in order]
    subs = par.pmap('harness.l3:explore_cfg', jobs)
    out = []
    for i, h in enumerate(heads):
        st = explore.Stats()
        st.merge(h)
        found = {(f[0].split(':')[0][:60], f[2]): f for f in h['found']}
        for o, d in zip(owner, subs):
            if o == i:
                st.merge(d)
                for f in d['found']:
                    found.setdefault((f[0].split(':')[0][:60], f[2]), f)
        m = st.as_dict()
        m['found'] = list(found.values())
        m['subtrees'] = owner.count(i)
        out.append(m)
    return out


def replay(rp):
    x = make_runner(rp['config'])(rp['choices'])
    for e in x.log:
        print(e)
    print('outcome', x.outcome)
    print('violation:', x.violation)
    return 1 if x.violation else 0
