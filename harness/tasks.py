"""Task callables used by the pool harnesses (picklable by reference)."""


def ok(x):
    return ('ok', x)


def boom(x):
    raise ValueError('boom', x)


def ident(x):
    return x


def tenfold(x):
    return x * 10


def typed(x):
    return (x, type(x).__name__)


def none(x):
    return None


def pair_sum(a, b):
    return a + b


def raise_if(k, x):
    if x == k:
        raise KeyError('item', x)
    return x * 10


class Unsendable:
    """Pickling it fails: a task argument that cannot be sent."""

    def __reduce__(self):
        raise TypeError('cannot send this')
