"""C14 -- the shared-memory heap never hands out overlapping or misplaced
memory (billiard/heap.py, class Heap).  DESIGN.md section 5, C14.

Three parts, all on the real ``billiard.heap.Heap``; ``billiard.heap.Arena``
is replaced by an in-memory look-alike (``.size``, ``.buffer``), because the
class under test is ``Heap`` (real arenas belong to C15):

(a) ``bfs``   explicit-state BFS over all malloc/free histories up to a depth,
              de-duplicated on a canonical state, invariants in every state,
              plus the differential "coalescing is order independent";
(b) ``conc``  2-3 vthreads on one Heap, scheduler-aware ``_lock``, LINE-level
              preemption inside heap.py, every interleaving within a
              preemption bound (explore.dfs);
(c) ``gc``    re-entrant ``free()`` (what a GC finaliser does) injected, in
              the same thread, at every LINE (thorough: every bytecode
              INSTRUCTION) reached during one malloc()/free().

Oracle (every clause is a clause of the property statement; the harness keeps
its own record of what malloc() returned and what it gave back -- it never
trusts ``Heap._allocated_blocks``):

  L1  every live block is at least as large as requested,
  L2  starts on an 8-byte boundary,
  L3  lies inside the arena it names (and that arena was really mapped),
  L4  is disjoint from every other live block,
  P1  live blocks and free blocks tile every mapped arena exactly (no gap, no
      overlap, no empty free block),
  P2  no two free blocks are adjacent (freed space is merged),
  P3  the four free-list indexes describe one and the same set of free blocks,
  N1  a malloc maps a new arena only if no free extent was large enough for
      the rounded request just before,
  D1  the extents after freeing a set of blocks do not depend on the order.
Nothing is demanded about the arena size policy (``Heap._size``), about which
of several fitting free blocks is chosen, or about ``Heap._arenas``.
While a free() is deferred (``_pending_free_blocks``), its block is neither
live nor free; that is tolerated until the next malloc() returns (the
statement: "frees that find the heap lock taken"), and until then the block
must not be handed out again.
"""
import collections
import hashlib
import itertools
import mmap
import random
import sys
import time

from vmc import vctx, vos, sched as vs, explore, par, report      # noqa: F401
from vmc import linepoints, vthreading
import billiard.heap as bheap

PAGE = mmap.PAGESIZE
ALIGN = 8
SIZES = (0, 1, 8, 9, 24, 4088, 4096, 4097, 8192, 12289)


def roundup(n):
    """The rounded request of the property statement (reference arithmetic,
    independent of Heap._roundup)."""
    n = max(n, 1)
    return ((n + ALIGN - 1) // ALIGN) * ALIGN


# ------------------------------------------------------------ the fake arena
class FakeArena:
    """In-memory stand-in for ``billiard.heap.Arena``: ``.size`` and
    ``.buffer``; every instance is recorded by the execution that is current
    when Heap maps it, so the harness knows the arenas independently of
    ``Heap._arenas``."""
    __slots__ = ('size', '_buffer', 'index')
    current = None                # the Run that owns arenas mapped now

    def __init__(self, size):
        self.size = size
        self._buffer = None
        run = FakeArena.current
        self.index = len(run.arenas)
        hook = run.on_arena
        if hook is not None:
            hook(self)
        run.arenas.append(self)

    @property
    def buffer(self):
        # Heap never touches arena memory: allocate on first use only
        if self._buffer is None:
            self._buffer = bytearray(self.size)
        return self._buffer

    def __repr__(self):
        return 'A%d[%d]' % (self.index, self.size)


bheap.Arena = FakeArena


def norm(block):
    """Address-free form of a block."""
    try:
        a, s, e = block
        return (a.index, s, e)
    except Exception:                                   # noqa
        return ('malformed', repr(block))


# --------------------------------------------------------------- one history
class Run:
    """One real Heap plus the harness's own books: arenas mapped, blocks
    handed out and not given back (``live``: block -> requested size), blocks
    given back whose free() may still be deferred (``limbo``)."""

    def __init__(self, lock=None):
        self.arenas = []
        self.on_arena = None
        self.live = {}
        self.limbo = set()
        self.log = []
        FakeArena.current = self
        self.heap = bheap.Heap(size=PAGE)
        if lock == 'auto':
            # a scheduler-aware look-alike of the kind of lock the Heap
            # itself chose (a re-entrant one lets a finaliser's free() into
            # the middle of malloc())
            import threading
            lock = vthreading.RLock() if isinstance(
                self.heap._lock, type(threading.RLock())) \
                else vthreading.Lock()
        if lock is not None:
            self.heap._lock = lock

    # --- views computed from the harness's books only
    def extents(self, occupied):
        """Maximal gaps between the given blocks, per arena: what must be
        free if exactly ``occupied`` is not."""
        per = collections.defaultdict(list)
        for (a, s, e) in occupied:
            if s < e:
                per[a.index].append((s, e))
        gaps = []
        for a in self.arenas:
            pos = 0
            for s, e in sorted(per.get(a.index, ())):
                if s > pos:
                    gaps.append((a.index, pos, s))
                pos = max(pos, e)
            if pos < a.size:
                gaps.append((a.index, pos, a.size))
        return gaps

    def mapped(self, a):
        try:
            return self.arenas[a.index] is a
        except Exception:                               # noqa
            return False

    def sorted_live(self):
        return sorted(self.live, key=norm)

    # --- operations
    def raw(self, op):
        """Replay one already-verified step of a prefix: the real call and
        the book-keeping, no checks."""
        FakeArena.current = self
        if op[0] == 'm':
            self.live[self.heap.malloc(op[1])] = op[1]
        else:
            b = self.block_of(op)
            del self.live[b]
            self.heap.free(b)

    def block_of(self, op):
        """['f', k]: k-th live block in address order; ['fb', [a, s, e]]."""
        if op[0] == 'f':
            return self.sorted_live()[op[1]]
        want = tuple(op[1])
        return [b for b in self.live if norm(b) == want][0]

    def malloc(self, size, occupied_extra=()):
        """heap.malloc(size) + every clause that concerns this call (L1-L4
        for the new block, N1).  Returns (block, message or None).  N1 is
        evaluated on the harness's own books: the free extents just before
        are the gaps between the blocks it holds (plus ``occupied_extra``)."""
        FakeArena.current = self
        before = self.extents(list(self.live) + list(occupied_extra))
        biggest = max([e - s for _, s, e in before] or [0])
        n_arenas = len(self.arenas)
        try:
            block = self.heap.malloc(size)
        except Exception as exc:                        # noqa
            self.log.append(('malloc', size, 'raised', repr(exc)))
            return None, 'malloc(%d) raised %r' % (size, exc)
        self.log.append(('malloc', size, norm(block)))
        msg = self.check_block(block, size)
        if msg is None:
            for other in self.live:
                if overlap(block, other):
                    msg = ('malloc(%d) returned %r which overlaps live block '
                           '%r' % (size, norm(block), norm(other)))
                    break
        if msg is None:
            for other in self.limbo:
                if overlap(block, other) and \
                        other in self.heap._pending_free_blocks:
                    msg = ('malloc(%d) returned %r which overlaps %r whose '
                           'free() is still pending' % (
                               size, norm(block), norm(other)))
        if msg is None and len(self.arenas) > n_arenas and \
                biggest >= roundup(size):
            msg = ('malloc(%d) mapped a new arena (%r) although a free extent '
                   'of %d bytes >= %d existed: free extents were %r' % (
                       size, self.arenas[n_arenas:], biggest, roundup(size),
                       before))
        if msg is None:
            self.live[block] = size
            if len(self.arenas) > n_arenas:
                self.last = 'malloc:new-arena'
            elif norm(block) in before:
                self.last = 'malloc:reuse-exact'
            else:
                self.last = 'malloc:reuse-split'
        return block, msg

    def free(self, block):
        FakeArena.current = self
        req = self.live.pop(block)
        self.limbo.add(block)
        try:
            self.heap.free(block)
        except Exception as exc:                        # noqa
            self.log.append(('free', norm(block), 'raised', repr(exc)))
            return 'free(%r) raised %r' % (norm(block), exc)
        self.log.append(('free', norm(block), req))
        return None

    def check_block(self, block, size):
        if not (isinstance(block, tuple) and len(block) == 3):
            return 'malloc(%d) returned %r' % (size, block)
        a, s, e = block
        if not self.mapped(a):
            return ('malloc(%d) returned a block in %r, which is not an arena '
                    'the heap mapped' % (size, a))
        if not (isinstance(s, int) and isinstance(e, int)):
            return 'malloc(%d) returned %r' % (size, norm(block))
        if e - s < size:
            return ('malloc(%d) returned %r: only %d bytes' % (
                size, norm(block), e - s))
        if s % ALIGN:
            return ('malloc(%d) returned %r: start not 8-byte aligned' % (
                size, norm(block)))
        if s < 0 or e > a.size or e < s:
            return ('malloc(%d) returned %r: outside its arena of %d bytes'
                    % (size, norm(block), a.size))
        return None

    # --- the state invariant
    def free_set(self):
        """The free blocks according to the four indexes, or a message when
        the indexes disagree (P3)."""
        h = self.heap
        by_start, by_stop = h._start_to_block, h._stop_to_block
        for (a, s), b in by_start.items():
            if not (len(b) == 3 and b[0] is a and b[1] == s):
                return None, ('_start_to_block[%r] = %r' % (
                    (a.index, s), norm(b)))
        for (a, e), b in by_stop.items():
            if not (len(b) == 3 and b[0] is a and b[2] == e):
                return None, ('_stop_to_block[%r] = %r' % (
                    (a.index, e), norm(b)))
        f1 = set(by_start.values())
        f2 = set(by_stop.values())
        f3 = set()
        n3 = 0
        for length, seq in h._len_to_seq.items():
            if not seq:
                return None, '_len_to_seq[%d] is empty' % length
            for b in seq:
                n3 += 1
                f3.add(b)
                if b[2] - b[1] != length:
                    return None, ('_len_to_seq[%d] holds %r' % (
                        length, norm(b)))
        if n3 != len(f3):
            return None, 'a block is listed twice in _len_to_seq'
        if not (f1 == f2 == f3) or len(by_start) != len(f1) or \
                len(by_stop) != len(f2):
            return None, (
                'by start %r / by stop %r / by length %r' % (
                    sorted(map(norm, f1)), sorted(map(norm, f2)),
                    sorted(map(norm, f3))))
        if list(h._lengths) != sorted(h._len_to_seq):
            return None, ('_lengths = %r but the free blocks have lengths %r'
                          % (list(h._lengths), sorted(h._len_to_seq)))
        return f1, None

    def check(self, strict=True):
        """L1-L4, P1-P3 in the current state.  ``strict``: no free() may
        still be pending; otherwise pending blocks (which the harness did
        give back) count as occupied."""
        h = self.heap
        free, msg = self.free_set()
        if msg:
            return 'the free-list indexes disagree: ' + msg
        pending = list(h._pending_free_blocks)
        for b in pending:
            if b not in self.limbo:
                return ('%r is on the pending-free list but was never given '
                        'back' % (norm(b),))
        if len(set(pending)) != len(pending):
            return 'a block is on the pending-free list twice'
        if strict and pending:
            return ('free()d blocks %r were still not returned to the free '
                    'list after a later malloc() completed' % (
                        sorted(map(norm, pending)),))
        for b in list(self.limbo):
            if b not in pending:
                self.limbo.discard(b)       # reclaimed (or must be: P1 below)
        per = collections.defaultdict(list)
        arenas = self.arenas
        for b, req in self.live.items():
            # L1-L3 for every live block in every state (fast path; the
            # slow path words the message)
            try:
                a, s0, e0 = b
                ok = (arenas[a.index] is a and not s0 & 7 and
                      e0 - s0 >= req and 0 <= s0 <= e0 <= a.size)
            except Exception:                           # noqa
                ok = False
            if not ok:
                return 'live block: ' + (self.check_block(b, req) or
                                         'malformed %r' % (b,))
            if s0 < e0:
                per[a.index].append((s0, e0, 'live'))
        for b in pending:
            per[b[0].index].append((b[1], b[2], 'pending'))
        for b in free:
            a, s, e = b
            if not self.mapped(a):
                return 'free block %r in an arena never mapped' % (norm(b),)
            if not s < e:
                return 'empty free block %r' % (norm(b),)
            per[a.index].append((s, e, 'free'))
        for a in self.arenas:
            pos, prev = 0, None
            for s, e, kind in sorted(per.get(a.index, ())):
                if s < pos:
                    what = ('live blocks overlap' if kind == prev == 'live'
                            else '%s and %s blocks overlap' % (prev, kind))
                    return '%s in arena %d at [%d,%d): %s' % (
                        what, a.index, s, min(e, pos), self.describe())
                if s > pos:
                    return ('bytes [%d,%d) of arena %d are neither live nor '
                            'free: %s' % (pos, s, a.index, self.describe()))
                if kind == 'free' and prev == 'free':
                    return ('two adjacent free blocks meet at %d in arena %d '
                            '(not merged): %s' % (s, a.index, self.describe()))
                pos, prev = e, kind
            if pos < a.size:
                return ('bytes [%d,%d) of arena %d are neither live nor free:'
                        ' %s' % (pos, a.size, a.index, self.describe()))
            if pos > a.size:
                return ('a %s block ends at %d beyond arena %d of %d bytes' % (
                    prev, pos, a.index, a.size))
        return None

    def describe(self):
        h = self.heap
        return 'arenas=%r live=%r free=%r pending=%r' % (
            [a.size for a in self.arenas], sorted(map(norm, self.live)),
            sorted(map(norm, h._start_to_block.values())),
            sorted(map(norm, h._pending_free_blocks)))

    # --- state identity
    def coarse(self):
        """Extents only: arena sizes, live blocks, free blocks."""
        h = self.heap
        return (tuple(a.size for a in self.arenas),
                tuple(sorted(map(norm, self.live))),
                tuple(sorted(map(norm, h._start_to_block.values()))))

    def canon(self):
        """Everything a later malloc/free of this Heap can depend on.

        Heap reads: ``_size`` (size of the next arena); the free blocks, and
        for equal lengths their order inside ``_len_to_seq[length]`` (``pop()``
        takes the last one); ``_allocated_blocks`` (membership only).
        ``_lengths``, ``_start_to_block`` and ``_stop_to_block`` are functions
        of the free set once P3 holds, and P3 was checked before a state is
        de-duplicated; dict insertion order is never observed (key look-ups
        only).  ``_arenas`` is write-only.  Arena objects occur only as parts
        of dictionary keys, so they may be renamed; they are named by creation
        order, which is finer than necessary.  Requested sizes of live blocks
        are not part of the state: L1 is evaluated on the transition that
        creates the block, before de-duplication, and blocks are immutable.
        The key is thus at least as fine as the Heap's behaviour."""
        h = self.heap
        live = tuple(sorted(map(norm, self.live)))
        # name-independent: every attribute of the Heap object, with arenas
        # named by creation order (a private attribute that is renamed or
        # added by a refactoring is picked up by itself); unordered
        # containers sorted, ordered ones kept in order
        return (live, tuple(a.size for a in self.arenas), _canon_obj(h))


def _canon_val(v, depth=0):
    if isinstance(v, FakeArena):
        return ('A', v.index)
    if v is None or isinstance(v, (bool, int, float, str, bytes)):
        return v
    if isinstance(v, (tuple, list, collections.deque)):
        return ('seq',) + tuple(_canon_val(x, depth + 1) for x in v)
    if isinstance(v, (set, frozenset)):
        return ('set',) + tuple(sorted((_canon_val(x, depth + 1) for x in v),
                                       key=repr))
    if isinstance(v, dict):
        return ('map',) + tuple(sorted(
            ((_canon_val(k, depth + 1), _canon_val(x, depth + 1))
             for k, x in v.items()), key=repr))
    return ('obj', type(v).__name__)          # locks and the like


def _canon_obj(h):
    out = []
    for name in sorted(vars(h)):
        v = vars(h)[name]
        if isinstance(v, int) and not isinstance(v, bool) and \
                v == _PID_OF_THIS_PROCESS():
            continue                           # the owner pid (fork check)
        out.append((name, _canon_val(v)))
    return tuple(out)


def _PID_OF_THIS_PROCESS():
    import os
    return os.getpid()


def progress(*a):
    import os
    if os.environ.get('VMC_PROGRESS'):
        print('[c14 %s]' % time.strftime('%H:%M:%S'), *a, file=sys.stderr,
              flush=True)


def overlap(b1, b2):
    return b1[0] is b2[0] and b1[1] < b2[2] and b2[1] < b1[2]


def digest(key):
    return hashlib.blake2b(repr(key).encode(), digest_size=16).digest()



# ------------------------------------------------------------ (a) histories
# A history is a list of ops: ['m', size] | ['f', k] (k-th live block in
# address order) | ['fb', [arena, start, stop]].  Frontier histories travel
# as bytes: b < 10 -> malloc(SIZES[b]), otherwise free(k = b - 10).
def enc(hist):
    return bytes(SIZES.index(o[1]) if o[0] == 'm' else 10 + o[1]
                 for o in hist)


def dec(bs):
    return [['m', SIZES[b]] if b < 10 else ['f', b - 10] for b in bs]


def apply_op(run, op):
    """One checked step.  Returns (label, message); the label says what the
    heap had to do (judged from the harness's books)."""
    if op[0] == 'm':
        _, msg = run.malloc(op[1])
        return (None, msg) if msg else (run.last, None)
    block = run.block_of(op)
    a, s, e = block
    gaps = run.extents(run.live)
    nb = ((1 if any(g[0] == a.index and g[2] == s for g in gaps) else 0) +
          (2 if any(g[0] == a.index and g[1] == e for g in gaps) else 0))
    msg = run.free(block)
    return 'free:' + ('isolated', 'merge-prev', 'merge-next',
                      'merge-both')[nb], msg


def replay_history(hist, verbose=False):
    """Fresh Heap, replay all but the last step unchecked (they were checked
    when their own state was generated), the last one checked, then the state
    invariant.  verbose: check and print every step."""
    run = Run()
    lab = None
    for i, op in enumerate(hist):
        if verbose or i == len(hist) - 1:
            lab, msg = apply_op(run, op)
            if msg is None:
                msg = run.check()
            if verbose:
                print('%2d %-28r %-20s %s' % (i, op, lab, run.describe()))
            if msg:
                return run, lab, 'step %d %r: %s' % (i, op, msg)
        else:
            run.raw(op)
    return run, lab, None


def ops_of(run):
    return [['m', s] for s in SIZES] + [['f', k] for k in range(len(run.live))]


def order_independence(hist, run, max_set, room):
    """D1: for every set of 2..max_set live blocks of this state (as far as
    the depth bound leaves room), every order of freeing them leaves the same
    extents, and the invariant holds after each."""
    n = 0
    live = [list(norm(b)) for b in run.sorted_live()]
    for m in range(2, min(max_set, room, len(live)) + 1):
        for subset in itertools.combinations(live, m):
            ref = None
            for perm in itertools.permutations(subset):
                h2 = hist + [['fb', b] for b in perm]
                r2 = Run()
                msg = None
                for o in hist:
                    r2.raw(o)
                for o in h2[len(hist):]:
                    msg = r2.free(r2.block_of(o)) or r2.check()
                    if msg:
                        break
                n += 1
                if msg:
                    return n, (h2, msg)
                c = r2.coarse()
                if ref is None:
                    ref = (c, perm)
                elif c != ref[0]:
                    return n, (h2, 'freeing %r in the order %r leaves %r, in '
                               'the order %r it leaves %r' % (
                                   sorted(subset), list(ref[1]), ref[0],
                                   list(perm), c))
    return n, None


def _expand(arg):
    """Worker: expand a chunk of frontier states by one operation each way."""
    hists, depth_left, diff_set = arg
    out = dict(transitions=0, keys=[], hists=[], violation=None,
               labels=collections.Counter(), diff=0)
    local = set()
    last_level = depth_left <= 1      # targets are checked, never expanded
    for bs in hists:
        hist = dec(bs)
        base = Run()
        for o in hist:
            base.raw(o)
        for op in ops_of(base):
            h2 = hist + [op]
            run, lab, msg = replay_history(h2)
            out['transitions'] += 1
            if msg:
                out['violation'] = (h2, msg)
                return out
            out['labels'][lab] += 1
            k = digest(run.canon())
            if k not in local:
                local.add(k)
                out['keys'].append(k)
                if not last_level:
                    out['hists'].append(enc(h2))
        if diff_set >= 2 and depth_left >= 2:
            n, bad = order_independence(hist, base, diff_set, depth_left)
            out['diff'] += n
            if bad:
                out['violation'] = bad
                return out
    out['keys'] = b''.join(out['keys'])
    return out


def bfs(depth, diff_set, seed, budget_s=None):
    """Level-synchronous BFS; the frontier of each level is expanded by the
    worker pool, de-duplication is global (here).  ``budget_s`` (thorough
    only): a level is not started when it is predicted (8 x the previous
    level) to end after the budget; the result is then marked capped and
    reports the depth completed."""
    t0 = t_level = time.time()
    t_last = 0.0
    rnd = random.Random(seed)
    r0 = Run()
    msg = r0.check()
    seen = {digest(r0.canon())}
    front = [b'']
    res = dict(states=1, transitions=0, depth=0, violation=None,
               labels=collections.Counter(), diff=0, per_level=[1],
               samples=[], capped=False)
    if msg:
        res['violation'] = ([], msg)
        return res
    for d in range(depth):
        if not front:
            break
        if budget_s is not None and \
                time.time() - t0 + 8 * t_last > budget_s:
            res['capped'] = True
            break
        t_level = time.time()
        order = list(range(len(front)))
        rnd.shuffle(order)
        nchunk = 1 if len(front) < 64 else min(len(front) // 16,
                                               par.NPROC * 6)
        chunks = [[front[i] for i in order[c::nchunk]] for c in range(nchunk)]
        outs = par.pmap('harness.c14:_expand',
                        [(ch, depth - d, diff_set) for ch in chunks])
        nxt = []
        nnew = 0
        for o in outs:
            res['transitions'] += o['transitions']
            res['labels'].update(o['labels'])
            res['diff'] += o['diff']
            if o['violation'] and not res['violation']:
                res['violation'] = o['violation']
            if isinstance(o['keys'], list):         # stopped on a violation
                continue
            blob, hs = o['keys'], o['hists']
            for j in range(len(blob) // 16):
                k = blob[16 * j:16 * j + 16]
                if k not in seen:
                    seen.add(k)
                    nnew += 1
                    if hs:
                        nxt.append(hs[j])
        res['depth'] = d + 1
        res['states'] = len(seen)
        res['per_level'].append(nnew)
        t_last = time.time() - t_level
        progress('bfs level', d + 1, 'states', len(seen), 'transitions',
                 res['transitions'])
        if res['violation']:
            break
        if nxt:
            nxt.sort()
            front = nxt
    # states of the deepest level were checked (every transition's target
    # is) but are not expanded
    res['samples'] = [dec(h) for h in front[:1] + front[-1:]]
    return res


# ---------------------------------------------------------- (b) concurrency
HEAP_CODES = None


def heap_codes():
    global HEAP_CODES
    if HEAP_CODES is None:
        HEAP_CODES = linepoints.codes_of(bheap.Heap)
    return HEAP_CODES


class _TracingChoices(vs.Choices):
    """Replay only: remember where every vthread stood at each decision."""
    sched = None

    def next(self, n, costs=None, label=''):
        k = vs.Choices.next(self, n, costs, label)
        self.decisions[-1].label = '%s -> %d   %s' % (label, k, ' | '.join(
            '%s:%s%s' % (t.name, t.pending.op,
                         t.pending.obj if t.pending.op == 'line' else '')
            for t in self.sched.threads if t.pending is not None))
        return k


def _run_conc(cfg, prefix, verbose=False):
    """One interleaving.  cfg: pre=[sizes] (sequential set-up mallocs),
    prefree=[indexes of those freed again in the set-up], threads=[[op...]]
    with op = ['m', size] | ['f', 'p', i] (i-th set-up block) | ['f', 'o', j]
    (j-th block this thread malloc'ed itself)."""
    choices = (_TracingChoices if verbose else vs.Choices)(prefix)
    sched = vs.Scheduler(choices, timer_deviation=False, max_steps=20000)
    choices.sched = sched
    log = []
    bad = []
    with vos.fresh(sched):
        run = Run(lock='auto')
        heap = run.heap
        pre = []
        msg = None
        for s in cfg['pre']:
            b, msg = run.malloc(s)
            if msg:
                break
            pre.append(b)
        for i in cfg['prefree']:
            msg = msg or run.free(pre[i])
        msg = msg or run.check()
        if msg:
            # the sequential set-up already breaks the property
            return explore.Execution(
                choices.decisions, outcome=('conc', 'set-up failed'),
                violation='sequential set-up: ' + msg, log=run.log,
                status='set-up')
        run.limbo.clear()
        inflight = {}
        deferred = [0]

        def arena_hook(arena):
            # N1 under concurrency, evaluated at the instant the arena is
            # mapped (the mapping thread holds the heap lock, so the free set
            # is stable): every block the heap can have reclaimed by now is
            # absent from live + limbo, hence the gaps between live + limbo
            # blocks are all parts of free extents.
            vt = vs.current()
            need = roundup(inflight[vt.tid])
            gaps = run.extents(list(run.live) + list(run.limbo))
            big = max([e - s for _, s, e in gaps] or [0])
            log.append(('arena', vt.name, arena.size))
            if big >= need:
                bad.append('%s: malloc(%d) mapped a new arena although a free '
                           'extent of %d bytes existed: %r' % (
                               vt.name, inflight[vt.tid], big, gaps))
        run.on_arena = arena_hook

        def body(ti, script):
            def fn():
                vt = vs.current()
                mine = []
                out = []
                for op in script:
                    if op[0] == 'm':
                        size = op[1]
                        inflight[vt.tid] = size
                        try:
                            b = heap.malloc(size)
                        except Exception as exc:          # noqa
                            bad.append('T%d: malloc(%d) raised %r' % (
                                ti, size, exc))
                            return tuple(out)
                        # no scheduling point from here to the end of the
                        # iteration: the books are updated atomically
                        log.append(('T%d' % ti, 'malloc', size, norm(b)))
                        msg = run.check_block(b, size)
                        if msg is None:
                            for o in run.live:
                                if overlap(b, o):
                                    msg = ('malloc(%d) returned %r which '
                                           'overlaps live block %r' % (
                                               size, norm(b), norm(o)))
                            for o in heap._pending_free_blocks:
                                if overlap(b, o):
                                    msg = ('malloc(%d) returned %r which '
                                           'overlaps %r whose free() is still '
                                           'pending' % (size, norm(b),
                                                        norm(o)))
                        if msg:
                            bad.append('T%d: %s' % (ti, msg))
                            return tuple(out)
                        run.live[b] = size
                        mine.append(b)
                        out.append(norm(b))
                    else:
                        b = pre[op[2]] if op[1] == 'p' else mine[op[2]]
                        del run.live[b]
                        run.limbo.add(b)
                        try:
                            heap.free(b)
                        except Exception as exc:          # noqa
                            bad.append('T%d: free(%r) raised %r' % (
                                ti, norm(b), exc))
                            return tuple(out)
                        if b in heap._pending_free_blocks:
                            deferred[0] += 1
                            log.append(('T%d' % ti, 'free', norm(b),
                                        'deferred'))
                            out.append('deferred')
                        else:
                            # reclaimed, or popped by the lock holder who is
                            # reclaiming it right now
                            run.limbo.discard(b)
                            log.append(('T%d' % ti, 'free', norm(b)))
                            out.append('freed')
                return tuple(out)
            return fn
        for ti, script in enumerate(cfg['threads']):
            sched.spawn(body(ti, script), 'T%d' % ti, pid=vos.MAIN_PID)
        sched.linepoints = True
        try:
            status = sched.run()
        finally:
            sched.linepoints = False
        run.on_arena = None
        v = None
        errs = [(t.name, repr(t.exc)) for t in sched.threads
                if t.exc is not None]
        if bad:
            v = bad[0]
        elif errs:
            v = 'exception in a heap user thread: %r' % (errs,)
        elif status != 'done':
            v = 'threads did not finish: %s %r' % (status, sched.describe())
        results = tuple(t.result for t in sched.threads)
        n_pending = len(heap._pending_free_blocks)
        if v is None:
            v = run.check(strict=False)
        if v is None:
            # the next malloc must drain the pending list; for N1 the pending
            # blocks still count as occupied (the statement does not say the
            # drain comes first)
            _, v = run.malloc(8, occupied_extra=list(heap._pending_free_blocks))
            if v is None:
                v = run.check(strict=True)
            if v is not None:
                v = 'after the final malloc(8): ' + v
        outcome = ('conc', status, results, n_pending, len(run.arenas))
        state = run.coarse()
    if verbose:
        for i, d in enumerate(choices.decisions):
            if d.chosen or i == 0:
                print('decision %3d  %s' % (i, d.label))
        for e in log:
            print(e)
    return explore.Execution(choices.decisions, outcome=outcome, violation=v,
                             log=log, status=status,
                             extra={'state': repr(state)})


def conc_runner(cfg):
    linepoints.enable(heap_codes())
    return lambda prefix, expect=None: _run_conc(cfg, prefix)


def _conc_subtree(arg):
    cfg, bound, prefix, budget_s = arg
    deadline = time.time() + budget_s if budget_s else None
    st = explore.dfs(conc_runner(cfg), bound, prefix=prefix,
                     deadline=deadline)
    return st.as_dict()


def conc_configs(tier):
    thorough = tier == 'thorough'
    b = 3 if thorough else 2          # two-thread configurations
    b3 = 2                            # three-thread configurations
    P, O = 'p', 'o'
    cfgs = [
        # two frees of neighbouring blocks, each followed by a malloc
        (dict(pre=[24, 24, 24, 24], prefree=[],
              threads=[[['f', P, 0], ['m', 24]],
                       [['f', P, 1], ['m', 8]]]), b),
        # a free racing with a malloc that has to split / map an arena
        (dict(pre=[24, 4000, 24], prefree=[],
              threads=[[['m', 4088], ['f', O, 0]],
                       [['f', P, 1], ['m', 24]]]), b),
        # both threads need a fresh arena at the same time
        (dict(pre=[], prefree=[],
              threads=[[['m', 4096], ['f', O, 0]],
                       [['m', 8], ['f', O, 0]]]), b),
        # free into a hole between two free blocks while another thread
        # allocates from one of them
        (dict(pre=[24, 24, 24, 24, 24], prefree=[1, 3],
              threads=[[['f', P, 2], ['m', 72]],
                       [['m', 24], ['f', P, 0]]]), b),
        # three threads, one operation each
        (dict(pre=[24, 24, 24, 24], prefree=[],
              threads=[[['f', P, 0]], [['f', P, 1]], [['m', 16]]]), b3),
    ]
    if thorough:
        cfgs += [
            (dict(pre=[24, 24, 24], prefree=[1],
                  threads=[[['m', 24]], [['m', 4096]], [['f', P, 0]]]), b3),
            (dict(pre=[24, 24, 24, 24], prefree=[],
                  threads=[[['f', P, 0], ['m', 24]], [['f', P, 1]],
                           [['f', P, 2], ['m', 48]]]), 2),
            (dict(pre=[8, 8, 8], prefree=[1],
                  threads=[[['m', 8], ['f', O, 0], ['m', 9]],
                           [['f', P, 0], ['m', 8], ['f', P, 2]]]), 2),
        ]
    return cfgs


def conc(tier, seed, rep):
    rnd = random.Random(seed)
    cfgs = conc_configs(tier)
    budget = 600.0 if tier == 'thorough' else None
    items = []
    stats = []
    for ci, (cfg, bound) in enumerate(cfgs):
        st = explore.Stats()
        stats.append(st)
        roots = explore.frontier(conc_runner(cfg), bound, par.NPROC * 3, st)
        for p in roots:
            items.append((ci, (cfg, bound, p, budget)))
    linepoints.disable()
    order = list(range(len(items)))
    rnd.shuffle(order)
    outs = par.pmap('harness.c14:_conc_subtree',
                    [items[i][1] for i in order])
    merged = dict(zip(order, outs))
    progress('conc done')
    for i in range(len(items)):
        stats[items[i][0]].merge(merged[i])
    total = explore.Stats()
    for ci, (cfg, bound) in enumerate(cfgs):
        st = stats[ci]
        for ch, msg in st.violations[:1]:
            # a counterexample must be a pure function of its choices
            linepoints.enable(heap_codes())
            again = [_run_conc(cfg, ch).violation for _ in range(2)]
            linepoints.disable()
            if again != [msg, msg]:
                raise vs.HarnessError('counterexample does not replay: %r / '
                                      '%r' % (msg, again))
            rep.violation('%s\nconfig=%r' % (msg, cfg),
                          dict(harness='c14', part='conc', config=cfg,
                               choices=ch))
        total.merge(st.as_dict())
    rep.stats('conc', total, configs=len(cfgs),
              preemption_bounds=[b for _, b in cfgs],
              per_config=[dict(config=repr(c), bound=b,
                               executions=s.executions,
                               outcomes=len(s.outcomes),
                               end_states=len(s.states), capped=s.capped)
                          for (c, b), s in zip(cfgs, stats)])


# ------------------------------------------------------- (c) re-entrant free
mon = sys.monitoring


class Injector:
    """A LINE (or INSTRUCTION) callback of our own, in the thread that runs
    the heap operation: at the k-th event it calls ``action`` -- a free() of
    another block, in the same thread, exactly like a finaliser run by the
    garbage collector while malloc()/free() is in progress."""
    TOOL = 3

    def __init__(self):
        self.gran = None
        self.active = False
        self.n = 0
        self.plan = {}
        self.fired = []

    def install(self, gran):
        if self.gran == gran:
            return
        if self.gran is None:
            mon.use_tool_id(self.TOOL, 'c14-gc')
            mon.register_callback(self.TOOL, mon.events.LINE, self._event)
            mon.register_callback(self.TOOL, mon.events.INSTRUCTION,
                                  self._event)
        ev = mon.events.LINE if gran == 'line' else mon.events.INSTRUCTION
        for c in heap_codes():
            mon.set_local_events(self.TOOL, c, ev)
        self.gran = gran

    def uninstall(self):
        if self.gran is not None:
            for c in heap_codes():
                mon.set_local_events(self.TOOL, c, 0)
            mon.free_tool_id(self.TOOL)
            self.gran = None

    def _event(self, code, where):
        if not self.active:
            return None
        i = self.n
        self.n = i + 1
        act = self.plan.get(i)
        if act is not None:
            self.fired.append((code.co_name, where))
            act()
        return None

    def during(self, plan, fn):
        """Run fn() with the plan {event index: action} armed; returns
        (result of fn, number of events seen)."""
        self.plan, self.n, self.fired = plan, 0, []
        self.active = True
        try:
            r = fn()
        finally:
            self.active = False
        return r, self.n


INJ = Injector()


def _run_gc(case, verbose=False):
    """One execution: replay ``prefix``; perform ``op`` with free(victim)
    injected at the given event indexes; check; then malloc(next) and check
    strictly.  case = dict(prefix, op, inj=[[k, [a, s, e]], ...], gran, next).
    Returns (outcome, message, events)."""
    INJ.install(case['gran'])
    # a lock with threading.Lock semantics (not re-entrant, try-lock fails
    # when held) that raises vos.WouldBlock where the real one would block
    # this single thread forever
    run = Run(lock='auto')
    for o in case['prefix']:
        run.raw(o)
    errors = []

    def freeer(vb):
        def act():
            b = run.block_of(['fb', vb])
            msg = run.free(b)
            if msg:
                errors.append('injected ' + msg)
        return act
    plan = {k: freeer(vb) for k, vb in case['inj']}
    op = case['op']
    if op[0] == 'm':
        (_, msg), n = INJ.during(plan, lambda: run.malloc(op[1]))
    else:
        target = run.block_of(op)
        msg, n = INJ.during(plan, lambda: run.free(target))
    fired = list(INJ.fired)
    if errors:
        msg = errors[0]
    pending = list(run.heap._pending_free_blocks)
    if msg is None and len(fired) != len(plan) and case['inj']:
        # cannot happen: event k of the un-injected run exists in this run too
        msg = 'harness: injection point %r not reached' % (case['inj'],)
    if msg is None:
        msg = run.check(strict=False)
    new_arena = len(run.arenas)
    where = 'in %r with free(%r) injected at %r (%s): ' % (
        op, [vb for _, vb in case['inj']], fired, case['gran'])
    if verbose:
        print('after', op, 'fired', fired, run.describe())
    if msg:
        return None, where + msg, n
    nxt = case.get('next')
    if nxt is not None:
        _, msg = run.malloc(nxt, occupied_extra=pending)
        if msg is None:
            msg = run.check(strict=True)
        if verbose:
            print('after malloc(%d)' % nxt, run.describe())
        if msg:
            return None, where + 'then malloc(%d): %s' % (nxt, msg), n
    outcome = (op[0], tuple(f[0] for f in fired) if case['gran'] != 'line'
               else tuple(fired), len(pending), new_arena)
    return outcome, None, n


def _gc_chunk(arg):
    """Worker: for every given prefix state, every operation, every victim
    and every event index -- all of them."""
    prefixes, gran, double, nexts = arg
    out = dict(executions=0, outcomes=collections.Counter(), violation=None,
               points=0, ops=0, sample=None)

    def one(case):
        o, msg, n = _run_gc(case)
        out['executions'] += 1
        if msg:
            out['violation'] = (case, msg)
            return None
        out['outcomes'][repr(o)] += 1
        return n
    for bs in prefixes:
        prefix = dec(bs)
        base = Run()
        for o in prefix:
            base.raw(o)
        live = [list(norm(b)) for b in base.sorted_live()]
        for op in ops_of(base):
            target = list(norm(base.block_of(op))) if op[0] == 'f' else None
            victims = [b for b in live if b != target]
            if not victims:
                continue
            case = dict(prefix=prefix, op=op, inj=[], gran=gran, next=None)
            n = one(case)
            if n is None:
                return out
            out['ops'] += 1
            out['points'] += n
            for v in victims:
                for k in range(n):
                    for nx in nexts:
                        c = dict(case, inj=[[k, v]], next=nx)
                        n1 = one(c)
                        if n1 is None:
                            return out
                    if out['sample'] is None and k == n // 2:
                        out['sample'] = c
                    if not double or len(prefix) > 2:
                        continue
                    # a second finaliser, for another block, at any later
                    # event of the same operation
                    for v2 in victims:
                        if v2 == v:
                            continue
                        for k2 in range(k + 1, n1):
                            c2 = dict(case, inj=[[k, v], [k2, v2]],
                                      next=nexts[0])
                            if one(c2) is None:
                                return out
    INJ.uninstall()
    return out


def gc_part(tier, seed, rep):
    thorough = tier == 'thorough'
    pdepth = 3 if thorough else 2
    # prefix states = all states the BFS of part (a) reaches within pdepth
    seen, front, prefixes = {digest(Run().canon())}, [[]], [b'']
    for _ in range(pdepth):
        nxt = []
        for h in front:
            base, _, _ = replay_history(h)
            for op in ops_of(base):
                h2 = h + [op]
                r, _, msg = replay_history(h2)
                if msg:
                    rep.violation('history %r\n%s' % (h2, msg),
                                  dict(harness='c14', part='bfs', history=h2))
                    rep.part('gc-line', evaluations=len(seen),
                             outcomes=['prefix enumeration failed'])
                    return
                k = digest(r.canon())
                if k not in seen:
                    seen.add(k)
                    nxt.append(h2)
                    prefixes.append(enc(h2))
        front = nxt
    rnd = random.Random(seed)
    jobs = [('line', thorough, (8, 4096) if thorough else (8,))]
    if thorough:
        jobs.append(('instr', False, (8,)))
    for gran, double, nexts in jobs:
        ps = list(prefixes)
        if gran == 'instr':
            ps = [p for p in ps if len(p) <= 2]
        rnd.shuffle(ps)
        nchunk = max(1, min(len(ps), par.NPROC * 4))
        outs = par.pmap('harness.c14:_gc_chunk',
                        [(sorted(ps[c::nchunk]), gran, double, nexts)
                         for c in range(nchunk)])
        progress('gc', gran, 'done')
        tot = collections.Counter()
        outcomes = collections.Counter()
        sample = None
        bad = None
        for o in outs:
            for key in ('executions', 'points', 'ops'):
                tot[key] += o[key]
            outcomes.update(o['outcomes'])
            sample = sample or o['sample']
            bad = bad or o['violation']
        if bad:
            case, msg = bad
            rep.violation(msg, dict(harness='c14', part='gc', case=case))
        rep.part('gc-' + gran, evaluations=tot['executions'],
                 states=len(prefixes) if gran == 'line' else len(ps),
                 transitions=tot['executions'],
                 outcomes=outcomes.keys(), samples=[sample] if sample else [],
                 prefix_depth=max(len(p) for p in ps), operations=tot['ops'],
                 injection_points=tot['points'], granularity=gran,
                 second_injection=double, next_mallocs=list(nexts))


# ------------------------------------------------------------------- driver
def main(tier, seed, only=None):
    rep = report.Report('C14', tier, seed)
    thorough = tier == 'thorough'
    want = lambda name: only is None or name in only          # noqa: E731
    if want('bfs'):
        depth, diff_set = (8, 4) if thorough else (6, 3)
        r = bfs(depth, diff_set, seed, 420.0 if thorough else None)
        if r['violation']:
            h, msg = r['violation']
            rep.violation('history %r\n%s' % (h, msg),
                          dict(harness='c14', part='bfs', history=h))
        rep.part('bfs', evaluations=r['transitions'] + r['diff'],
                 states=r['states'], transitions=r['transitions'],
                 outcomes=r['labels'].keys(), samples=r['samples'],
                 capped=r['capped'], depth=r['depth'], depth_planned=depth, new_states_per_level=r['per_level'],
                 order_independence_runs=r['diff'],
                 order_independence_set_size=diff_set,
                 transition_kinds=dict(r['labels']), alphabet=dict(
                     malloc=list(SIZES), free='k-th live block'))
    if want('conc'):
        conc(tier, seed, rep)
    if want('gc'):
        gc_part(tier, seed, rep)
    rep.cov['rule'] = (
        'bfs: every history over malloc(s), s in SIZES, and free(k-th live '
        'block) up to the stated depth, executed on the real Heap, targets '
        'de-duplicated on the canonical state (states = distinct canonical '
        'states, transitions = operations executed and checked); conc: every '
        'interleaving within the preemption bound; gc: every (prefix state, '
        'operation, victim block, injection point). distinct_nontrivial = '
        'distinct observed outcomes: kinds of transition (new arena / exact '
        'reuse / split; free merging with none / previous / next / both '
        'neighbours), per-thread results and deferred-free counts of the '
        'concurrent runs, and (operation, injection line, deferred or not, '
        'arenas) of the re-entrant runs')
    rep.assume(
        'billiard.heap.Arena is replaced by an in-memory object with .size '
        'and .buffer: Heap never touches arena memory, real arenas are the '
        'subject of C15',
        'bfs: states are identified by a 128-bit digest of (Heap._size, arena '
        'sizes in creation order, live blocks, free blocks in the order kept '
        'in _len_to_seq, _allocated_blocks if it differs from the live set); '
        'see Run.canon for why this determines all future behaviour',
        'conc: threads may be switched before every source line of class '
        'Heap and at every operation of Heap._lock (a scheduler-aware lock '
        'with threading.Lock semantics); line granularity over-approximates '
        'where CPython switches threads; preemption bound per configuration '
        'in coverage.parts.conc',
        'gc: a finaliser is modelled as a plain call of Heap.free in the same '
        'thread before a source line (thorough: also before a bytecode '
        'instruction) of class Heap; Heap._lock is a look-alike with '
        'threading.Lock semantics that raises instead of blocking its only '
        'thread forever (a self-deadlock is reported as a violation)',
        'a block whose free() was deferred is required to be back on the free '
        'list only once a later malloc() has returned')
    return rep.finish()


def replay(rp):
    part = rp.get('part')
    if part == 'bfs':
        run, _, msg = replay_history(rp['history'], verbose=True)
        if msg is None and any(o[0] == 'fb' for o in rp['history']):
            # an order-independence counterexample: show the other orders
            hist = rp['history']
            n = len(hist)
            while n and hist[n - 1][0] == 'fb':
                n -= 1
            base = Run()
            for o in hist[:n]:
                base.raw(o)
            _, bad = order_independence(hist[:n], base, len(hist) - n,
                                        len(hist) - n)
            msg = bad[1] if bad else None
    elif part == 'conc':
        linepoints.enable(heap_codes())
        x = _run_conc(rp['config'], rp['choices'], verbose=True)
        print('status', x.status, 'outcome', x.outcome)
        msg = x.violation
    elif part == 'gc':
        _, msg, _ = _run_gc(rp['case'], verbose=True)
    else:
        raise SystemExit('unknown replay part %r' % (part,))
    print('violation:', msg)
    return 1 if msg else 0
