"""C06 -- soft time limit is raised once, inside the task that exceeded it.
Parent half (which signals are sent, how often, callback arguments) on the
L2 engine; the worker half (what the signal does inside the process) is the
L1 harness (harness/l1.py, run from here as a second part)."""
import signal

from harness import c01

SOFT = int(signal.SIGUSR1)


def oracle(env, ev):
    now = env.world.now
    if not ev:
        return None
    pk = env.cfg.get('pool', {})
    # attribute every soft-limit signal sent so far to the job that ran on
    # the target at that moment
    seen = getattr(env, '_soft_seen', 0)
    kills = env.world.kills
    for sender, pid, sig in kills[seen:]:
        if sig != SOFT:
            continue
        w = env.workers.get(pid)
        owner = [j for j, rec in enumerate(env.jobs)
                 if rec['kind'] == 'apply' and rec['h'] is not None and
                 rec['h']._worker_pid == pid and not rec.get('soft_closed')]
        if ev[0] != 'scan':
            return 'soft-limit signal sent outside a scan (%r)' % (ev,)
        if not owner:
            return ('soft-limit signal sent to %r on behalf of no accepted '
                    'job' % pid)
        if pid not in [p.pid for p in env.pool._pool]:
            return ('soft-limit signal sent to %r, which is not a live '
                    'process of the pool any more (its job %r is waiting '
                    'out the lost-worker grace period)' % (pid, owner))
        j = owner[-1]
        rec = env.jobs[j]
        h = rec['h']
        env.soft_sent[j] += 1
        # ground truth (the reference worker's own record, not the handle's
        # claim): the signalled process took this job and was not told to
        # refuse it -- "raised inside the process running that job"
        part = rec['parts'].get(None) or {}
        if part.get('pid') != pid or part.get('state') not in (
                'taken', 'done', 'lost'):
            return ('soft-limit signal sent to %r on behalf of job %d, which '
                    'never ran there (its part: %r; the process is now %s)' % (
                        pid, j, part, w and (w.phase, w.task and w.task[:2])))
        want = rec['t'].get('soft') or pk.get('soft_timeout')
        if h.ready():
            return ('soft-limit signal sent for job %d whose result had '
                    'already been processed' % j)
        if not want:
            return 'soft-limit signal sent for job %d without a soft limit' % j
        if now < h._time_accepted + want - 1e-9:
            return ('soft-limit signal for job %d at %.3f, before its limit '
                    '(accepted %.3f + %.3f)' % (j, now, h._time_accepted, want))
        if env.soft_sent[j] > 1:
            return 'soft-limit signal sent %d times for job %d' % (
                env.soft_sent[j], j)
    env._soft_seen = len(kills)
    for j, rec in enumerate(env.jobs):
        h = rec['h']
        if h is None or rec['kind'] != 'apply':
            continue
        if h.ready():
            rec['soft_closed'] = True
        want = rec['t'].get('soft') or pk.get('soft_timeout')
        hard = rec['t'].get('hard') or pk.get('timeout')
        if h._soft_timeout != want:
            return ('job %d: effective soft limit %r, expected %r' % (
                j, h._soft_timeout, want))
        tos = [c for c in env.cb[j] if c[0] == 'to' and c[2]]
        if tos and rec.get('refused'):
            return ('timeout callback(soft=True) ran for job %d, which was '
                    'refused and never run' % j)
        if len(tos) > 1:
            return 'timeout callback(soft=True) ran %d times for job %d' % (
                len(tos), j)
        if tos and (tos[0][3] != want):
            return ('timeout callback of job %d was told timeout=%r, the '
                    'soft limit is %r' % (j, tos[0][3], want))
        if len(tos) != env.soft_sent[j] and (tos or env.soft_sent[j]):
            w = env.workers.get(h._worker_pid)
            if not (tos and w is not None and not w.alive):
                # (callback ran but the process was already gone: ESRCH path)
                return ('job %d: %d soft signals but %d soft callbacks' % (
                    j, env.soft_sent[j], len(tos)))
        if ev[0] == 'scan' and want and h._time_accepted and not h.ready() \
                and now >= h._time_accepted + want \
                and not (hard and now >= h._time_accepted + hard):
            w = env.workers.get(h._worker_pid)
            if env.soft_sent[j] != 1 and w is not None and w.alive and \
                    h._worker_pid in [p.pid for p in env.pool._pool]:
                return ('job %d is past its soft limit after a scan but %d '
                        'soft-limit signals were sent' % (j, env.soft_sent[j]))
    return None


def configs(tier):
    T = tier == 'thorough'
    out = []
    A = dict(die=(-9,), die_idle=False, max_adv=4, put_faults=(), scan=True,
             soft_raise=True)
    d = 8 if not T else 10
    ms = 30000 if not T else 400000
    ap = dict(kind='apply', fn='ok')
    base = dict(lost_worker_timeout=3.0)
    combos = [(None, None, 1.0, None), (None, None, 1.0, 2.0),
              (2.0, None, 1.0, None), (1.0, 3.0, None, None),
              (1.0, None, None, 2.0), (2.0, 3.0, 1.0, None)]
    if T:
        combos += [(1.0, 2.0, 3.0, None), (None, 3.0, 1.0, 2.0),
                   (3.0, None, 2.0, 3.0), (1.0, 2.0, None, 3.0)]
    for ps, ph, js, jh in combos:
        pk = dict(base, enable_timeouts=True)
        if ps:
            pk['soft_timeout'] = ps
        if ph:
            pk['timeout'] = ph
        j0 = dict(kind='apply', fn='ok')
        if js:
            j0['soft'] = js
        if jh:
            j0['hard'] = jh
        out.append(dict(name='pool(s=%s,h=%s)/job(s=%s,h=%s)' % (ps, ph, js, jh),
                        procs=2, jobs=[j0, ap], pool=pk, alphabet=A, depth=d,
                        max_states=ms, final='harness.c01:final',
                        oracle='harness.c06:oracle'))
    # two jobs whose soft limits expire in the same scan, then more scans
    # while both still run (each is signalled once)
    js = dict(kind='apply', fn='ok', soft=1.0)
    out.append(dict(name='two-jobs/same-soft-limit', procs=2, jobs=[js, js],
                    pool=dict(base, enable_timeouts=True),
                    alphabet=dict(A, die=(), max_adv=3), depth=d + 2,
                    max_states=ms, final='harness.c01:final',
                    oracle='harness.c06:oracle'))
    # acknowledgement handshake: a job cancelled before acceptance is
    # refused by its worker, which goes on with the next job -- nothing is
    # signalled on behalf of the refused job
    As = dict(A, die=(), cancel=True)
    for procs in (1, 2):
        out.append(dict(name='synack/%dproc/job(s=1)+cancel' % procs,
                        procs=procs,
                        jobs=[dict(kind='apply', fn='ok', soft=1.0), ap],
                        pool=dict(base, enable_timeouts=True, synack=True),
                        alphabet=As, depth=d + 1, max_states=ms,
                        final='harness.c01:final',
                        oracle='harness.c06:oracle'))
    out.append(dict(name='synack/pool(s=1,h=3)+cancel', procs=1,
                    jobs=[ap, ap],
                    pool=dict(base, enable_timeouts=True, synack=True,
                              soft_timeout=1.0, timeout=3.0),
                    alphabet=As, depth=d + 1, max_states=ms,
                    final='harness.c01:final', oracle='harness.c06:oracle'))
    return out


def l3_soft_oracle(sc):
    """Whole pool, helper threads on: a job that survives its soft limit is
    signalled exactly once, also while the pool drains after close()."""
    import signal
    from harness import l3
    r = sc.res
    if r['host_exit'] is not None:
        return 'a pool thread crashed the host: os._exit(%r)' % r['host_exit']
    if r['errors']:
        return 'exception in a pool/worker thread: %r' % (r['errors'],)
    if r['status'] != 'done' or r['user'][0] != 'done':
        return ('scenario did not finish: %s %r' % (r['status'],
                                                    r['describe']),
                l3.stuck_signature(sc))
    soft = [k for k in r['kills'] if k[2] == int(signal.SIGUSR1)]
    k, fn, a, h = r['handles'][0]
    if len(soft) != 1:
        return ('the soft-limit signal was sent %d times for one job (%r)'
                % (len(soft), soft))
    if not h.ready() or not h._success or h._value != ('slept', a):
        return ('a job that caught its soft limit once and went on resolved '
                'as %r' % ((h.ready() and (h._success, h._value)),))
    return None


def l3_configs(tier):
    T = tier == 'thorough'
    out = []
    for name, script in (
            ('soft-then-close', ['submit:0', 'sleep:2.0', 'close', 'join']),
            ('soft-then-wait', ['submit:0', 'wait:0', 'close', 'join'])):
        out.append((dict(name=name, procs=1,
                         jobs=[('apply', 'sleepy_catch', 3.0)], script=script,
                         pool=dict(soft_timeout=1.0, timeout=60.0),
                         oracle='harness.c06:l3_soft_oracle', horizon=100.0),
                    1 if not T else 2, 4000 if not T else 40000))
    return out


def main(tier, seed, only=None):
    from harness import l2run

    def extra(rep):
        from harness import l1, c01_threads, l3
        from vmc import explore
        l1.soft_part(rep, tier)
        c01_threads.part(rep, tier, only=('softscan',),
                         name='thread-level-softscan-vs-result')
        cfgs = l3_configs(tier)
        for (cfg, b, cap), d in zip(cfgs, l3.explore_split(
                cfgs, want=12, wall_s=900 if tier == 'thorough' else 200)):
            found = d.pop('found')
            st = explore.Stats()
            st.merge(d)
            rep.stats('L3:' + cfg['name'], st, delay_bound=b,
                      subtrees=d.get('subtrees'))
            for msg, ch, sig, log in found:
                rep.violation(msg + '\nconfig=%s' % cfg['name'],
                              dict(harness='l3', config=cfg, choices=ch),
                              signature=sig)
    return l2run.run('C06', tier, seed, configs(tier), [
        'the soft-limit signal reaches the worker process the job handle '
        'names; what it does there is decided by the L1 part'], only, extra)


def replay(rp):
    if rp.get('harness') == 'l3':
        from harness import l3
        return l3.replay(rp)
    if rp.get('harness') == 'l1':
        from harness import l1
        return l1.replay(rp)
    if rp.get('harness') == 'c01-threads':
        from harness import c01_threads
        return c01_threads.replay(rp)
    from harness import l2run
    return l2run.replay('C06', rp, configs('thorough') + configs('quick'))
