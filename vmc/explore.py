"""Cost-bounded stateless DFS over choice sequences, and a replay-based BFS.

``run_fn(prefix, expect) -> Execution`` builds fresh real objects, replays
``prefix`` and takes choice 0 afterwards.  The explorer never samples: every
alternative whose cumulative cost stays within the bound is executed.
"""
import collections
import hashlib
import json
import time


class Execution:
    """What one run reports back to the explorer."""

    def __init__(self, decisions, outcome=None, violation=None, log=None,
                 status=None, finding=None, extra=None):
        self.decisions = decisions      # [sched.Decision]
        self.outcome = outcome          # hashable summary of what was observed
        self.violation = violation      # None or str
        self.finding = finding          # None or known-finding id matched
        self.log = log or []
        self.status = status
        self.extra = extra or {}

    @property
    def choices(self):
        return [d.chosen for d in self.decisions]


class Stats:

    def __init__(self):
        self.executions = 0
        self.decisions = 0
        self.max_depth = 0
        self.max_cost = 0
        self.outcomes = collections.Counter()
        self.statuses = collections.Counter()
        self.violations = []            # [(prefix, message)]
        self.findings = collections.Counter()
        self.samples = []
        self.capped = False
        self.states = set()             # optional, harness-provided state keys

    def merge(self, d):
        self.executions += d['executions']
        self.decisions += d['decisions']
        self.max_depth = max(self.max_depth, d['max_depth'])
        self.max_cost = max(self.max_cost, d['max_cost'])
        self.outcomes.update(d['outcomes'])
        self.statuses.update(d['statuses'])
        self.violations.extend(d['violations'])
        self.findings.update(d['findings'])
        self.capped = self.capped or d['capped']
        for s in d['samples']:
            if len(self.samples) < 6:
                self.samples.append(s)
        self.states.update(d.get('states', ()))

    def as_dict(self):
        return dict(executions=self.executions, decisions=self.decisions,
                    max_depth=self.max_depth, max_cost=self.max_cost,
                    outcomes=dict(self.outcomes),
                    statuses=dict(self.statuses),
                    violations=self.violations[:20],
                    findings=dict(self.findings), capped=self.capped,
                    samples=self.samples[:6], states=list(self.states))


def _account(stats, x, prefix):
    stats.executions += 1
    stats.decisions += len(x.decisions)
    stats.max_depth = max(stats.max_depth, len(x.decisions))
    stats.max_cost = max(
        stats.max_cost, sum(d.costs[d.chosen] for d in x.decisions))
    stats.outcomes[repr(x.outcome)] += 1
    stats.statuses[str(x.status)] += 1
    if x.finding:
        stats.findings[x.finding] += 1
    if x.violation:
        stats.violations.append((list(x.choices), x.violation))
    if 'state' in x.extra:
        stats.states.add(x.extra['state'])
    if len(stats.samples) < 3:
        stats.samples.append({'choices': x.choices[:60],
                              'outcome': repr(x.outcome)[:300]})


def children(x, plen, bound):
    """Prefixes that deviate from execution ``x`` at a decision >= plen while
    staying within the cost bound."""
    out = []
    cum = 0
    ch = x.choices
    for i, d in enumerate(x.decisions):
        if i >= plen:
            for alt in range(d.n):
                if alt != d.chosen and cum + d.costs[alt] <= bound:
                    out.append(ch[:i] + [alt])
        cum += d.costs[d.chosen]
    return out


def dfs(run_fn, bound, prefix=(), stats=None, max_execs=None,
        stop_on_violation=True, deadline=None):
    stats = stats or Stats()
    stack = [list(prefix)]
    while stack:
        if max_execs is not None and stats.executions >= max_execs:
            stats.capped = True
            break
        if deadline is not None and time.time() > deadline:
            stats.capped = True
            break
        p = stack.pop()
        x = run_fn(p, None)
        _account(stats, x, p)
        if x.violation and stop_on_violation:
            break
        stack.extend(reversed(children(x, len(p), bound)))
    return stats


def frontier(run_fn, bound, want, stats):
    """Expand breadth-first from the root until at least ``want`` unexplored
    subtree roots exist (or the tree is exhausted).  Returns the roots; all
    executions made on the way are accounted in ``stats``."""
    queue = collections.deque([[]])
    while queue and len(queue) < want:
        p = queue.popleft()
        x = run_fn(p, None)
        _account(stats, x, p)
        if x.violation:
            return []
        queue.extend(children(x, len(p), bound))
    return list(queue)


def bfs(initial, successors, canon, invariant, max_depth, max_states=None):
    """Explicit-state BFS where a state is identified by ``canon(state)`` and
    reached by replaying a history.

    ``initial() -> state``; ``successors(history, state) -> [(event, state')]``
    (each state' freshly built by the harness); ``invariant(state, history)``
    returns None or a message.  Returns dict(states, transitions, max_depth,
    violation=(history, msg) or None, capped).
    """
    s0 = initial()
    seen = {canon(s0)}
    msg = invariant(s0, [])
    if msg:
        return dict(states=1, transitions=0, max_depth=0,
                    violation=([], msg), capped=False)
    front = collections.deque([([], s0)])
    transitions = 0
    depth = 0
    capped = False
    while front:
        hist, st = front.popleft()
        depth = max(depth, len(hist))
        if len(hist) >= max_depth:
            continue
        for ev, nxt in successors(hist, st):
            transitions += 1
            h2 = hist + [ev]
            msg = invariant(nxt, h2)
            if msg:
                return dict(states=len(seen), transitions=transitions,
                            max_depth=max(depth, len(h2)),
                            violation=(h2, msg), capped=capped)
            k = canon(nxt)
            if k not in seen:
                if max_states is not None and len(seen) >= max_states:
                    capped = True
                    continue
                seen.add(k)
                front.append((h2, nxt))
    return dict(states=len(seen), transitions=transitions, max_depth=depth,
                violation=None, capped=capped)


def digest(obj):
    return hashlib.sha1(
        json.dumps(obj, sort_keys=True, default=repr).encode()).hexdigest()[:12]
